package main

// runtime engine: clusters of real nodes — leanhelix.NewLeanHelix + Run, i.e. the real main loop, worker loop and
// timer-based election trigger on their own goroutines — with SPI fakes that can block until their context is
// cancelled, UpdateState bursts, malformed traffic, partitions, and cancellation of the Run context at random
// moments. Everything a node does on its worker goroutine is logged in order (callbacks, SPI calls, timer arming,
// election triggers acted upon); the log is checked by monitors here (C12-C16, C19b) and written as a Coq case for
// the trace acceptor of the two-goroutine model (Loops.v / Runtime.v).
//
// Unlike the other engines this one is not deterministic in its seed: goroutine scheduling and real timers decide
// the interleaving. The seed fixes the scenario (who is partitioned when, which SPI calls block, when the context
// is cancelled); findings carry the observed event log as their replay.

import (
	"bytes"
	"context"
	"fmt"
	"math/rand"
	"os"
	"path/filepath"
	"runtime"
	"runtime/pprof"
	"sort"
	"strings"
	"sync"
	"sync/atomic"
	"time"

	"github.com/orbs-network/govnr"
	leanhelix "github.com/orbs-network/lean-helix-go"
	Electiontrigger "github.com/orbs-network/lean-helix-go/services/electiontrigger"
	"github.com/orbs-network/lean-helix-go/services/interfaces"
	"github.com/orbs-network/lean-helix-go/spec/types/go/primitives"
	"github.com/orbs-network/lean-helix-go/spec/types/go/protocol"
)

func init() { engines["runtime"] = runRuntime }

const (
	rtInst     = 7
	rtLateBase = uint64(800000000) // ids of blocks produced by a proposal call that returned after its context was cancelled
)

type rtEv struct {
	Seq  int    `json:"seq"`
	Ms   int64  `json:"us"` // microseconds since scenario start
	Node int    `json:"node"`
	Kind string `json:"kind"`
	H    uint64 `json:"h"`
	V    uint64 `json:"v"`
	A    uint64 `json:"a,omitempty"`
	B    bool   `json:"b,omitempty"`
	S    string `json:"s,omitempty"`
}

type rtLog struct {
	mu    sync.Mutex
	evs   []rtEv
	start time.Time
}

func (l *rtLog) add(node int, kind string, h, v, a uint64, b bool, s string) int {
	l.mu.Lock()
	defer l.mu.Unlock()
	e := rtEv{len(l.evs), time.Since(l.start).Microseconds(), node, kind, h, v, a, b, s}
	l.evs = append(l.evs, e)
	return e.Seq
}
func (l *rtLog) snapshot() []rtEv {
	l.mu.Lock()
	defer l.mu.Unlock()
	return append([]rtEv{}, l.evs...)
}

type rtCluster struct {
	seed    int64
	r       *rand.Rand
	rmu     sync.Mutex
	log     *rtLog
	kr      *keyring
	nodes   []*rtNode
	base    time.Duration
	chainMu sync.Mutex
	chain   map[uint64]*vblock
	proofs  map[uint64][]byte
	nextID  uint64
	pool    [][]byte   // contents of recently sent real messages (material for malformed traffic)
	r2      *rand.Rand // guarded by chainMu
	calm    int32      // 1: drain phase, SPI fakes never block
	sendWG  sync.WaitGroup
	rep     *Report
}

func (c *rtCluster) intn(n int) int {
	c.rmu.Lock()
	defer c.rmu.Unlock()
	return c.r.Intn(n)
}

type rtNode struct {
	c         *rtCluster
	id        int
	lh        *leanhelix.MainLoop
	ctx       context.Context
	cancel    context.CancelFunc
	waiter    govnr.ShutdownWaiter
	cancelled int32
	exited    int32
	parted    int32 // partitioned: inbound and outbound traffic dropped
	trig      *rtTrigger
	lateSeq   uint64
}

// ---- SPI fakes ----
type rtBlockUtils struct{ n *rtNode }

func (n *rtNode) spiMode() int { // 0 fast, 1 slow, 2 wait for the context
	if atomic.LoadInt32(&n.c.calm) == 1 {
		return 0
	}
	x := n.c.intn(100)
	switch {
	case x < 12:
		return 2
	case x < 30:
		return 1
	}
	return 0
}

func (n *rtNode) spiCall(kind string, ctx context.Context, h uint64) (released bool) {
	return n.spiCallS(kind, ctx, h, "")
}

// spiCallS: s = what the call says about the view its context belongs to (validate: the proposal's leader)
func (n *rtNode) spiCallS(kind string, ctx context.Context, h uint64, s string) (released bool) {
	mode := n.spiMode()
	v := uint64(n.lh.State().View())
	n.c.log.add(n.id, "SPI+"+kind, h, v, uint64(mode), ctx.Err() != nil, s)
	t0 := time.Now()
	switch mode {
	case 1:
		time.Sleep(time.Duration(1+n.c.intn(4)) * time.Millisecond)
	case 2:
		<-ctx.Done()
		released = true
	}
	n.c.log.add(n.id, "SPI-"+kind, h, v, uint64(time.Since(t0).Microseconds()), released, "")
	return
}

func (b *rtBlockUtils) RequestNewBlockProposal(ctx context.Context, h primitives.BlockHeight, me primitives.MemberId, prev interfaces.Block) (interfaces.Block, primitives.BlockHash) {
	n := b.n
	released := n.spiCall("propose", ctx, uint64(h))
	c := n.c
	c.chainMu.Lock()
	c.nextID++
	id := 1000 + c.nextID*10 + uint64(n.id)
	c.chainMu.Unlock()
	if released {
		id += rtLateBase
	}
	blk := &vblock{height: h, id: id}
	return blk, blockHash(blk)
}
func (b *rtBlockUtils) ValidateBlockProposal(ctx context.Context, h primitives.BlockHeight, leader primitives.MemberId, block interfaces.Block, hash primitives.BlockHash, prev interfaces.Block) error {
	b.n.spiCallS("validate", ctx, uint64(h), fmt.Sprintf("leader=%d", memberTok(leader)))
	vb, ok := block.(*vblock)
	if !ok || vb == nil || !bytes.Equal(blockHash(vb), hash) {
		return fmt.Errorf("bad block")
	}
	return nil
}
func (b *rtBlockUtils) ValidateBlockCommitment(h primitives.BlockHeight, block interfaces.Block, hash primitives.BlockHash) bool {
	vb, ok := block.(*vblock)
	return ok && vb != nil && bytes.Equal(blockHash(vb), hash)
}

// ---- communication ----
type rtComm struct{ n *rtNode }

func (cm *rtComm) SendConsensusMessage(ctx context.Context, recipients []primitives.MemberId, raw *interfaces.ConsensusRawMessage) error {
	n := cm.n
	c := n.c
	var ty, h, v, bid uint64
	if m := interfaces.ToConsensusMessage(raw); m != nil {
		ty, h, v = uint64(m.MessageType()), uint64(m.BlockHeight()), uint64(m.View())
	}
	if vb, ok := raw.Block.(*vblock); ok && vb != nil {
		bid = vb.id
	}
	c.log.add(n.id, "SEND", h, v, ty, false, fmt.Sprintf("%d", bid))
	c.chainMu.Lock()
	if len(c.pool) < 64 {
		c.pool = append(c.pool, raw.Content)
	} else {
		c.pool[c.r2.Intn(64)] = raw.Content
	}
	c.chainMu.Unlock()
	if atomic.LoadInt32(&n.parted) == 1 {
		return nil
	}
	for _, rid := range recipients {
		t := int(memberTok(rid))
		if t < 0 || t >= len(c.nodes) || t == n.id {
			continue
		}
		dst := c.nodes[t]
		if atomic.LoadInt32(&dst.parted) == 1 || atomic.LoadInt32(&dst.cancelled) == 1 {
			continue
		}
		d := time.Duration(c.intn(1500)) * time.Microsecond
		c.sendWG.Add(1)
		go func() {
			defer c.sendWG.Done()
			time.Sleep(d)
			dst.lh.HandleConsensusMessage(dst.ctx, raw)
		}()
	}
	return nil
}

// ---- election trigger: the real timer-based trigger behind a recording wrapper ----
type rtTrigger struct {
	n     *rtNode
	real  *Electiontrigger.TimerBasedElectionTrigger
	out   chan *interfaces.ElectionTrigger
	done  chan struct{}
	mu    sync.Mutex
	armed bool
	h     primitives.BlockHeight
	v     primitives.View
}

func newRtTrigger(n *rtNode, base time.Duration) *rtTrigger {
	t := &rtTrigger{n: n, real: Electiontrigger.NewTimerBasedElectionTrigger(base, nil), out: make(chan *interfaces.ElectionTrigger), done: make(chan struct{})}
	go t.pump()
	return t
}
func (t *rtTrigger) pump() {
	for {
		select {
		case <-t.done:
			return
		case tr := <-t.real.ElectionChannel():
			h, v := uint64(tr.Hv.Height()), uint64(tr.Hv.View())
			t.n.c.log.add(t.n.id, "TRIG", h, v, 0, false, "")
			inner := tr.MoveToNextLeader
			wrapped := &interfaces.ElectionTrigger{Hv: tr.Hv, MoveToNextLeader: func() {
				t.n.c.log.add(t.n.id, "ACT", h, v, 0, false, "")
				inner()
			}}
			select {
			case t.out <- wrapped:
			case <-t.done:
				return
			}
		}
	}
}
func (t *rtTrigger) RegisterOnElection(h primitives.BlockHeight, v primitives.View, cb func(primitives.BlockHeight, primitives.View, interfaces.OnElectionCallback)) {
	t.mu.Lock()
	if !(t.armed && t.h == h && t.v == v) {
		t.armed, t.h, t.v = true, h, v
		t.n.c.log.add(t.n.id, "ARM", uint64(h), uint64(v), uint64(t.real.CalcTimeout(v).Microseconds()), false, "")
	}
	t.mu.Unlock()
	t.real.RegisterOnElection(h, v, cb)
}
func (t *rtTrigger) ElectionChannel() chan *interfaces.ElectionTrigger { return t.out }
func (t *rtTrigger) CalcTimeout(v primitives.View) time.Duration       { return t.real.CalcTimeout(v) }
func (t *rtTrigger) Stop() {
	t.mu.Lock()
	t.armed = false
	t.n.c.log.add(t.n.id, "STOP", 0, 0, 0, false, "")
	t.mu.Unlock()
	t.real.Stop()
}

// ---- callbacks ----
func (n *rtNode) onCommit(ctx context.Context, block interfaces.Block, proof []byte) error {
	vb, _ := block.(*vblock)
	h := uint64(block.Height())
	var id uint64
	if vb != nil {
		id = vb.id
	}
	n.c.log.add(n.id, "CM", h, 0, id, false, "")
	c := n.c
	c.chainMu.Lock()
	if old, ok := c.chain[h]; ok {
		if old.id != id {
			c.rep.finding("C01", "runtime-fork", fmt.Sprintf("node %d committed block %d at height %d, another node committed %d", n.id, id, h, old.id), nil)
		}
	} else if vb != nil {
		c.chain[h] = vb
		c.proofs[h] = append([]byte{}, proof...)
	}
	c.chainMu.Unlock()
	if n.spiMode() == 2 { // a commit callback that waits for its context and then fails
		n.c.log.add(n.id, "SPI+commit", h, 0, 2, ctx.Err() != nil, "")
		t0 := time.Now()
		<-ctx.Done()
		n.c.log.add(n.id, "SPI-commit", h, 0, uint64(time.Since(t0).Microseconds()), true, "")
		return ctx.Err()
	}
	return nil
}
func (n *rtNode) onNewRound(ctx context.Context, h primitives.BlockHeight, prev interfaces.Block, lead bool) {
	n.c.log.add(n.id, "NR", uint64(h), 0, 0, lead, "")
}

func newRtCluster(seed int64, rep *Report) *rtCluster {
	c := &rtCluster{seed: seed, r: rand.New(rand.NewSource(seed)), log: &rtLog{start: time.Now()}, kr: newKeyring(seed),
		chain: map[uint64]*vblock{}, proofs: map[uint64][]byte{}, rep: rep, r2: rand.New(rand.NewSource(seed + 17))}
	c.base = time.Duration(12+c.r.Intn(20)) * time.Millisecond
	const N = 4
	committee := func(h primitives.BlockHeight) []interfaces.CommitteeMember {
		var ms []interfaces.CommitteeMember
		k := int(uint64(h) % N)
		for j := 0; j < N; j++ {
			ms = append(ms, interfaces.CommitteeMember{Id: idBytes(uint64((k + j) % N)), Weight: 1})
		}
		return ms
	}
	for i := 0; i < N; i++ {
		n := &rtNode{c: c, id: i}
		n.ctx, n.cancel = context.WithCancel(context.Background())
		n.trig = newRtTrigger(n, c.base)
		cfg := &interfaces.Config{
			InstanceId:              rtInst,
			Communication:           &rtComm{n},
			Membership:              &membership{me: idBytes(uint64(i)), committee: committee},
			BlockUtils:              &rtBlockUtils{n},
			KeyManager:              &keyManager{c.kr, idBytes(uint64(i))},
			ElectionTimeoutOnV0:     c.base,
			OverrideElectionTrigger: n.trig,
		}
		n.lh = leanhelix.NewLeanHelix(cfg, n.onCommit, n.onNewRound)
		c.nodes = append(c.nodes, n)
	}
	return c
}

// ---- junk ----
func (c *rtCluster) realContent() []byte {
	c.chainMu.Lock()
	defer c.chainMu.Unlock()
	if len(c.pool) == 0 {
		return nil
	}
	return c.pool[c.r2.Intn(len(c.pool))]
}

// nestedWrap: a well-formed envelope of each kind around the 8 bytes FD FF FF FF 00 00 00 00, whose first nested
// size word wraps the readers' uint32 offsets (the witnesses of finding F7)
func nestedWrap(kind int) []byte {
	inner := []byte{0xFD, 0xFF, 0xFF, 0xFF, 0x00, 0x00, 0x00, 0x00}
	b := &protocol.LeanhelixContentBuilder{}
	switch kind {
	case 0:
		b.Message, b.PreprepareMessage = protocol.LEANHELIX_CONTENT_MESSAGE_PREPREPARE_MESSAGE, protocol.PreprepareContentBuilderFromRaw(inner)
	case 1:
		b.Message, b.PrepareMessage = protocol.LEANHELIX_CONTENT_MESSAGE_PREPARE_MESSAGE, protocol.PrepareContentBuilderFromRaw(inner)
	case 2:
		b.Message, b.CommitMessage = protocol.LEANHELIX_CONTENT_MESSAGE_COMMIT_MESSAGE, protocol.CommitContentBuilderFromRaw(inner)
	case 3:
		b.Message, b.ViewChangeMessage = protocol.LEANHELIX_CONTENT_MESSAGE_VIEW_CHANGE_MESSAGE, protocol.ViewChangeMessageContentBuilderFromRaw(inner)
	default:
		b.Message, b.NewViewMessage = protocol.LEANHELIX_CONTENT_MESSAGE_NEW_VIEW_MESSAGE, protocol.NewViewMessageContentBuilderFromRaw(inner)
	}
	return b.Build().Raw()
}

func (c *rtCluster) junk() *interfaces.ConsensusRawMessage {
	switch c.intn(8) {
	case 0:
		return nil
	case 1:
		return &interfaces.ConsensusRawMessage{Content: nil}
	case 2:
		b := make([]byte, c.intn(40))
		for i := range b {
			b[i] = byte(c.intn(256))
		}
		return &interfaces.ConsensusRawMessage{Content: b}
	case 3: // union index + a size word that points far outside
		return &interfaces.ConsensusRawMessage{Content: []byte{byte(c.intn(5)), 0, 0, 0, 0xFD, 0xFF, 0xFF, 0xFF, 0, 0, 0, 0}}
	case 4:
		return &interfaces.ConsensusRawMessage{Content: nestedWrap(c.intn(5))}
	case 5, 6: // real traffic, truncated or with one size word mangled
		if src := c.realContent(); len(src) >= 8 {
			b := append([]byte{}, src...)
			if c.intn(2) == 0 {
				b = b[:c.intn(len(b)+1)]
			} else {
				o := 4 * c.intn(len(b)/4)
				v := []uint32{uint32(len(b)), 1 << 31, ^uint32(0) - 3, ^uint32(0)}[c.intn(4)]
				b[o], b[o+1], b[o+2], b[o+3] = byte(v), byte(v>>8), byte(v>>16), byte(v>>24)
			}
			return &interfaces.ConsensusRawMessage{Content: b}
		}
	}
	// a well-formed envelope around extreme field values
	return &interfaces.ConsensusRawMessage{Content: (&protocol.LeanhelixContentBuilder{Message: protocol.LEANHELIX_CONTENT_MESSAGE_PREPARE_MESSAGE,
		PrepareMessage: &protocol.PrepareContentBuilder{SignedHeader: &protocol.BlockRefBuilder{MessageType: protocol.LEAN_HELIX_PREPARE, InstanceId: rtInst,
			BlockHeight: primitives.BlockHeight(^uint64(0) - uint64(c.intn(3))), View: primitives.View(^uint64(0) - uint64(c.intn(3)))},
			Sender: &protocol.SenderSignatureBuilder{}}}).Build().Raw()}
}

type rtSync struct {
	node int
	hb   uint64
	at   time.Time
	ok   bool
}

// one scenario; returns the log and the list of accepted syncs
func (c *rtCluster) run(quickTier bool) {
	rep := c.rep
	for _, n := range c.nodes {
		n.waiter = n.lh.Run(n.ctx)
	}
	var apiWG sync.WaitGroup
	var syncMu sync.Mutex
	var syncs []rtSync
	doSync := func(n *rtNode, hb uint64) {
		var blk interfaces.Block
		var proof []byte
		c.chainMu.Lock()
		if hb > 0 {
			if b, ok := c.chain[hb]; ok {
				blk, proof = b, c.proofs[hb]
			} else {
				c.chainMu.Unlock()
				return
			}
		}
		c.chainMu.Unlock()
		apiWG.Add(1)
		go func() {
			defer apiWG.Done()
			t0 := time.Now()
			err := n.lh.UpdateState(n.ctx, blk, proof)
			d := time.Since(t0)
			c.log.add(n.id, "SYNCRET", hb, 0, uint64(d.Microseconds()), err == nil, "")
			if err == nil {
				syncMu.Lock()
				syncs = append(syncs, rtSync{n.id, hb, time.Now(), true})
				syncMu.Unlock()
			}
			if d > 1500*time.Millisecond && atomic.LoadInt32(&n.exited) == 0 {
				rep.finding("C14", "updatestate-blocked", fmt.Sprintf("UpdateState(height %d) on node %d took %v while the loops were running", hb, n.id, d), c.replay(n.id))
			}
		}()
	}
	for _, n := range c.nodes {
		doSync(n, 0)
	}
	length := time.Duration(500+c.intn(500)) * time.Millisecond
	if !quickTier {
		length += time.Duration(c.intn(600)) * time.Millisecond
	}
	deadline := time.Now().Add(length)
	midCancel := -1
	var midAt time.Time
	if c.intn(100) < 60 {
		midCancel = c.intn(len(c.nodes))
		midAt = time.Now().Add(time.Duration(c.intn(int(length/time.Millisecond))) * time.Millisecond)
	}
	parted := -1
	var healAt time.Time
	for time.Now().Before(deadline) {
		time.Sleep(time.Duration(500+c.intn(6000)) * time.Microsecond)
		now := time.Now()
		if midCancel >= 0 && now.After(midAt) {
			c.shutdownNode(c.nodes[midCancel], "mid")
			midCancel = -1
		}
		if parted >= 0 && now.After(healAt) {
			atomic.StoreInt32(&c.nodes[parted].parted, 0)
			c.log.add(parted, "HEAL", 0, 0, 0, false, "")
			// the application syncs a node that was cut off
			doSync(c.nodes[parted], c.top())
			parted = -1
		}
		x := c.intn(100)
		n := c.nodes[c.intn(len(c.nodes))]
		if atomic.LoadInt32(&n.cancelled) == 1 {
			continue
		}
		switch {
		case x < 14:
			j := c.junk()
			c.rep.count("runtime:junk")
			c.log.add(n.id, "JUNK", 0, 0, 0, false, "")
			apiWG.Add(1)
			go func() { defer apiWG.Done(); n.lh.HandleConsensusMessage(n.ctx, j) }()
		case x < 22:
			if parted < 0 {
				parted = n.id
				atomic.StoreInt32(&n.parted, 1)
				c.log.add(n.id, "PART", 0, 0, 0, false, "")
				healAt = now.Add(time.Duration(20+c.intn(120)) * time.Millisecond)
				c.rep.count("runtime:partition")
			}
		case x < 34:
			top := c.top()
			k := 1 + c.intn(4)
			c.rep.count("runtime:sync-burst")
			for i := 0; i < k; i++ {
				hb := top
				switch c.intn(5) {
				case 0:
					if top > 0 {
						hb = uint64(c.intn(int(top) + 1))
					}
				case 1:
					if top > 2 {
						hb = top - 1 - uint64(c.intn(2))
					}
				}
				doSync(n, hb)
			}
		}
	}
	// drain phase: no more blocking SPI calls, no partitions, no junk: the cluster must keep committing
	atomic.StoreInt32(&c.calm, 1)
	if parted >= 0 {
		atomic.StoreInt32(&c.nodes[parted].parted, 0)
		doSync(c.nodes[parted], c.top())
	}
	if midCancel >= 0 {
		c.shutdownNode(c.nodes[midCancel], "mid")
	}
	h0 := c.top()
	c.log.add(-1, "DRAIN", h0, 0, 0, false, "")
	progDeadline := time.Now().Add(6 * time.Second)
	for c.top() < h0+2 && time.Now().Before(progDeadline) {
		time.Sleep(5 * time.Millisecond)
		// a node whose commit callback failed stays at its height until the application syncs it
		for _, n := range c.nodes {
			if atomic.LoadInt32(&n.cancelled) == 0 && uint64(n.lh.State().Height()) <= c.top() && c.intn(20) == 0 {
				doSync(n, c.top())
			}
		}
	}
	if c.top() < h0+2 {
		rep.finding("C12", "no-progress-after-traffic", fmt.Sprintf("no two further heights were committed within 6s of calm running (top height %d -> %d)", h0, c.top()), c.replay(-1))
	}
	// accepted syncs must have taken effect (nodes still running)
	time.Sleep(500 * time.Millisecond)
	syncMu.Lock()
	for _, s := range syncs {
		n := c.nodes[s.node]
		if atomic.LoadInt32(&n.cancelled) == 1 || time.Since(s.at) < 450*time.Millisecond {
			continue
		}
		if h := uint64(n.lh.State().Height()); h <= s.hb {
			rep.finding("C14", "sync-no-effect", fmt.Sprintf("node %d: UpdateState(block of height %d) returned nil %v ago, node still at height %d", s.node, s.hb, time.Since(s.at), h), c.replay(s.node))
		}
	}
	rep.Distribution["runtime:syncs-accepted"] += len(syncs)
	syncMu.Unlock()
	// final shutdown of everybody, at whatever they are doing
	atomic.StoreInt32(&c.calm, 0)
	time.Sleep(time.Duration(c.intn(30)) * time.Millisecond)
	var wg sync.WaitGroup
	for _, n := range c.nodes {
		if atomic.LoadInt32(&n.cancelled) == 0 {
			wg.Add(1)
			go func(n *rtNode) { defer wg.Done(); c.shutdownNode(n, "end") }(n)
		}
	}
	wg.Wait()
	apiWG.Wait()
	c.sendWG.Wait()
	// nothing may happen on a node after its loops have ended
	time.Sleep(2*c.base + 30*time.Millisecond)
	for _, n := range c.nodes {
		close(n.trig.done)
	}
}

func (c *rtCluster) top() uint64 {
	c.chainMu.Lock()
	defer c.chainMu.Unlock()
	var t uint64
	for h := range c.chain {
		if h > t {
			t = h
		}
	}
	return t
}

func (c *rtCluster) shutdownNode(n *rtNode, when string) {
	if !atomic.CompareAndSwapInt32(&n.cancelled, 0, 1) {
		return
	}
	c.rep.count("runtime:cancel-" + when)
	c.log.add(n.id, "CANCEL", 0, 0, 0, false, when)
	t0 := time.Now()
	n.cancel()
	done := make(chan struct{})
	go func() {
		tctx, tc := context.WithTimeout(context.Background(), 5*time.Second)
		defer tc()
		n.waiter.WaitUntilShutdown(tctx)
		close(done)
	}()
	select {
	case <-done:
		d := time.Since(t0)
		atomic.StoreInt32(&n.exited, 1)
		c.log.add(n.id, "EXITED", 0, 0, uint64(d.Microseconds()), false, "")
		if d > 2*time.Second {
			c.rep.finding("C16", "shutdown-slow", fmt.Sprintf("node %d: WaitUntilShutdown returned %v after cancellation", n.id, d), c.replay(n.id))
		}
	case <-time.After(4 * time.Second):
		c.log.add(n.id, "EXIT-TIMEOUT", 0, 0, 0, false, "")
		c.rep.finding("C16", "shutdown-hangs", fmt.Sprintf("node %d: WaitUntilShutdown did not return within 4s of cancellation (%s)", n.id, when), c.replay(n.id))
		return
	}
	// API calls with the cancelled context return promptly
	t1 := time.Now()
	okc := make(chan struct{})
	go func() {
		_ = n.lh.UpdateState(n.ctx, nil, nil)
		n.lh.HandleConsensusMessage(n.ctx, &interfaces.ConsensusRawMessage{Content: []byte{1, 2, 3}})
		close(okc)
	}()
	select {
	case <-okc:
		if time.Since(t1) > time.Second {
			c.rep.finding("C16", "api-slow-after-cancel", fmt.Sprintf("node %d: API calls with the cancelled context took %v", n.id, time.Since(t1)), nil)
		}
	case <-time.After(3 * time.Second):
		c.rep.finding("C16", "api-blocks-after-cancel", fmt.Sprintf("node %d: UpdateState/HandleConsensusMessage with the cancelled context did not return within 3s", n.id), c.replay(n.id))
	}
}

func (c *rtCluster) replay(node int) interface{} {
	evs := c.log.snapshot()
	var out []rtEv
	for _, e := range evs {
		if node < 0 || e.Node == node || e.Node < 0 {
			out = append(out, e)
		}
	}
	if len(out) > 400 {
		out = out[len(out)-400:]
	}
	return map[string]interface{}{"seed": c.seed, "base_timeout_us": c.base.Microseconds(), "node": node, "events": out}
}

// ---- monitors over the per-node logs ----
func (c *rtCluster) monitors() {
	rep := c.rep
	evs := c.log.snapshot()
	for _, n := range c.nodes {
		var lastNR, lastCM, pendingNR uint64
		var haveNR, haveCM bool
		var curH, curV uint64
		var armH, armV, armAt, armTimeout uint64
		var armed, acted, exited bool
		trigCount := map[string]int{}
		armSeq := 0
		noLead := map[uint64]bool{}
		var exitSeq = -1
		type open struct {
			kind   string
			at     int64
			v      uint64
			trigAt int64 // when the election timer of the call's view was seen to fire (0: not seen)
		}
		var openSpi *open
		for _, e := range evs {
			if e.Node != n.id {
				continue
			}
			if exited {
				switch e.Kind {
				case "NR", "CM", "SEND", "ARM", "ACT", "SPI+propose", "SPI+validate", "SPI+commit":
					rep.finding("C16", "activity-after-shutdown", fmt.Sprintf("node %d: %s(h=%d v=%d) after WaitUntilShutdown returned", n.id, e.Kind, e.H, e.V), c.replay(n.id))
				case "TRIG":
					rep.finding("C16", "timer-fires-after-shutdown", fmt.Sprintf("node %d: election trigger (h=%d v=%d) delivered after WaitUntilShutdown returned", n.id, e.H, e.V), c.replay(n.id))
				}
				continue
			}
			switch e.Kind {
			case "NR":
				if haveNR && e.H <= lastNR {
					rep.finding("C13", "round-heights-not-increasing", fmt.Sprintf("node %d: new-round callback for height %d after %d", n.id, e.H, lastNR), c.replay(n.id))
				}
				if haveCM && e.H <= lastCM {
					rep.finding("C13", "round-not-above-commit", fmt.Sprintf("node %d: new-round callback for height %d after the commit of %d", n.id, e.H, lastCM), c.replay(n.id))
				}
				lastNR, haveNR = e.H, true
				if pendingNR == e.H {
					pendingNR = 0 // the term of this round was created (and armed the timer) just before the callback
				} else {
					if pendingNR != 0 {
						rep.finding("C13", "round-callback-missing", fmt.Sprintf("node %d: term created for height %d, new-round callback for %d", n.id, pendingNR, e.H), c.replay(n.id))
					}
					curH, curV = e.H, 0
				}
				if !e.B && e.H > 1 {
					noLead[e.H] = true
				}
				rep.count(fmt.Sprintf("runtime:newround-lead=%v", e.B))
			case "CM":
				if haveCM && e.H <= lastCM {
					rep.finding("C13", "commit-heights-not-increasing", fmt.Sprintf("node %d: commit callback for height %d after %d", n.id, e.H, lastCM), c.replay(n.id))
				}
				if e.H != curH {
					rep.finding("C13", "commit-of-another-height", fmt.Sprintf("node %d: commit callback for height %d while working on %d", n.id, e.H, curH), c.replay(n.id))
				}
				lastCM, haveCM = e.H, true
				rep.count("runtime:commit")
			case "ARM":
				if e.H > curH && e.V == 0 && pendingNR == 0 { // NewLeanHelixTerm of the next round: arms before the new-round callback
					curH, curV, pendingNR = e.H, 0, e.H
				}
				if e.H != curH || e.V < curV {
					rep.finding("C19", "timer-armed-for-another-position", fmt.Sprintf("node %d: timer armed for (%d,%d) while at (%d,%d)", n.id, e.H, e.V, curH, curV), c.replay(n.id))
				}
				curV = e.V
				armed, acted, armH, armV, armAt, armTimeout = true, false, e.H, e.V, uint64(e.Ms), e.A
				armSeq++
				rep.count("runtime:arm")
			case "STOP":
				armed = false
			case "TRIG":
				k := fmt.Sprintf("%d/%d/%d", armSeq, e.H, e.V)
				trigCount[k]++
				rep.count("runtime:trigger")
				if armed && e.H == armH && e.V == armV {
					if trigCount[k] > 1 {
						rep.finding("C19", "two-triggers-for-one-arming", fmt.Sprintf("node %d: second trigger for (%d,%d) from one arming", n.id, e.H, e.V), c.replay(n.id))
					}
					if uint64(e.Ms)+500 < armAt+armTimeout { // 0.5 ms tolerance for the clock reads
						rep.finding("C19", "trigger-before-timeout", fmt.Sprintf("node %d: trigger for (%d,%d) %dus after arming, timeout %dus", n.id, e.H, e.V, uint64(e.Ms)-armAt, armTimeout), c.replay(n.id))
					}
				} else {
					rep.count("runtime:stale-trigger")
				}
				if openSpi != nil && openSpi.trigAt == 0 && e.H == curH && e.V == openSpi.v {
					openSpi.trigAt = e.Ms
				}
			case "ACT":
				if !(armed && e.H == armH && e.V == armV) || e.H != curH || e.V != curV {
					rep.finding("C19", "stale-trigger-acted-upon", fmt.Sprintf("node %d: trigger (%d,%d) acted upon while armed=%v for (%d,%d), position (%d,%d)", n.id, e.H, e.V, armed, armH, armV, curH, curV), c.replay(n.id))
				}
				if acted {
					rep.finding("C19", "trigger-acted-upon-twice", fmt.Sprintf("node %d: trigger (%d,%d) acted upon twice", n.id, e.H, e.V), c.replay(n.id))
				}
				if uint64(e.Ms)+500 < armAt+armTimeout {
					rep.finding("C19", "election-before-timeout", fmt.Sprintf("node %d: election for (%d,%d) %dus after arming, timeout %dus", n.id, e.H, e.V, uint64(e.Ms)-armAt, armTimeout), c.replay(n.id))
				}
				acted = true
				rep.count("runtime:election")
			case "SEND":
				if e.A == uint64(protocol.LEAN_HELIX_PREPREPARE) || e.A == uint64(protocol.LEAN_HELIX_NEW_VIEW) {
					var bid uint64
					fmt.Sscanf(e.S, "%d", &bid)
					if bid >= rtLateBase && e.A == uint64(protocol.LEAN_HELIX_NEW_VIEW) {
						rep.finding("C15", "proposal-after-cancel", fmt.Sprintf("node %d: NEW_VIEW (h=%d v=%d) carries a block whose proposal call returned under a cancelled context", n.id, e.H, e.V), c.replay(n.id))
					}
				}
				if e.A == uint64(protocol.LEAN_HELIX_PREPREPARE) {
					var bid uint64
					fmt.Sscanf(e.S, "%d", &bid)
					if bid >= rtLateBase {
						rep.finding("C15", "proposal-after-cancel", fmt.Sprintf("node %d: PREPREPARE (h=%d v=%d) carries a block whose proposal call returned under a cancelled context", n.id, e.H, e.V), c.replay(n.id))
					}
					if e.V == 0 && noLead[e.H] {
						rep.finding("C14", "first-leader-after-sync", fmt.Sprintf("node %d: PREPREPARE at view 0 of height %d, a round entered by node sync", n.id, e.H), c.replay(n.id))
					}
				}
				if e.H != 0 && e.H != curH && e.A != uint64(protocol.LEAN_HELIX_COMMIT) {
					rep.count("runtime:send-other-height")
				}
			case "SPI+propose", "SPI+validate", "SPI+commit":
				if e.H != curH {
					rep.finding("C15", "spi-call-for-another-height", fmt.Sprintf("node %d: %s for height %d while working on %d", n.id, e.Kind, e.H, curH), c.replay(n.id))
				}
				if e.A == 2 {
					openSpi = &open{e.Kind, e.Ms, curV, 0}
					rep.count("runtime:blocking-spi")
				}
			case "SPI-propose", "SPI-validate", "SPI-commit":
				if openSpi != nil && e.B && openSpi.trigAt != 0 {
					// released by its context after the election timer of its view was seen to fire: the release must follow
					// the firing promptly. Measured from the observed firing, not from the call's start: on a loaded machine
					// the timer itself fires late and that is not the node's doing. (A call that is never released shows up
					// as shutdown-hangs / exit-with-spi-in-flight.)
					if late := e.Ms - openSpi.trigAt; late > 3000000 {
						rep.finding("C15", "spi-released-late", fmt.Sprintf("node %d: %s released %dus after the election timer of its view %d fired", n.id, e.Kind, late, openSpi.v), c.replay(n.id))
					}
					rep.count("runtime:spi-released-by-election")
				}
				openSpi = nil
			case "EXITED":
				exited = true
				exitSeq = e.Seq
				if openSpi != nil {
					rep.finding("C16", "exit-with-spi-in-flight", fmt.Sprintf("node %d: loops ended while %s was still blocked", n.id, openSpi.kind), c.replay(n.id))
				}
				if armed {
					rep.finding("C16", "timer-armed-at-exit", fmt.Sprintf("node %d: loops ended with the election timer armed for (%d,%d)", n.id, armH, armV), c.replay(n.id))
				}
			}
		}
		_ = exitSeq
	}
}

func minU(a, b uint64) uint64 {
	if a < b {
		return a
	}
	return b
}

// Coq case: the worker-side observation sequence of one node
func (c *rtCluster) coqCases() []string {
	evs := c.log.snapshot()
	var out []string
	for _, n := range c.nodes {
		var items []string
		for _, e := range evs {
			if e.Node != n.id {
				continue
			}
			switch e.Kind {
			case "NR":
				items = append(items, fmt.Sprintf("RNewRound %d %s", e.H, cBool(e.B)))
			case "CM":
				items = append(items, fmt.Sprintf("RCommit %d", e.H))
			case "ARM":
				items = append(items, fmt.Sprintf("RArm %d %d", e.H, e.V))
			case "STOP":
				items = append(items, "RStop")
			case "ACT":
				items = append(items, fmt.Sprintf("RAct %d %d", e.H, e.V))
			case "SPI+propose", "SPI+validate", "SPI+commit":
				items = append(items, fmt.Sprintf("RSpi %d", e.H))
			case "EXITED":
				items = append(items, "RExited")
			}
		}
		out = append(out, cList(items))
	}
	return out
}

// stallWatch measures how much wall-clock time the process lost to the machine (CPU starvation, a frozen sandbox)
// while a scenario ran: a goroutine sleeps 2 ms at a time and adds up by how much each sleep overshot. The runtime
// monitors compare real timers with wall-clock bounds; a scenario during which the process itself was stalled says
// nothing about the node, so it is run again instead of being judged.
type stallWatch struct {
	stop   chan struct{}
	done   chan struct{}
	maxGap time.Duration
	lost   time.Duration
}

func startStallWatch() *stallWatch {
	w := &stallWatch{stop: make(chan struct{}), done: make(chan struct{})}
	go func() {
		defer close(w.done)
		last := time.Now()
		for {
			select {
			case <-w.stop:
				return
			default:
			}
			time.Sleep(2 * time.Millisecond)
			now := time.Now()
			if gap := now.Sub(last) - 2*time.Millisecond; gap > 20*time.Millisecond {
				w.lost += gap
				if gap > w.maxGap {
					w.maxGap = gap
				}
			}
			last = now
		}
	}()
	return w
}
func (w *stallWatch) finish() bool { // true: the machine stalled the process noticeably
	close(w.stop)
	<-w.done
	return w.maxGap > 250*time.Millisecond || w.lost > 600*time.Millisecond
}

func (r *Report) merge(o *Report, withFindings bool) {
	for k, v := range o.Distribution {
		if !withFindings && strings.HasPrefix(k, "finding:") {
			continue
		}
		r.Distribution[k] += v
	}
	if withFindings {
		r.Findings = append(r.Findings, o.Findings...)
	}
	for _, x := range o.Samples {
		r.sample(x, 4)
	}
	r.Evaluations += o.Evaluations
}

func runRuntime(cfg *runCfg) error {
	rep := newReport("runtime", cfg)
	count := cfg.n
	if count == 0 {
		count = 10
		if cfg.tier == "thorough" {
			count = 120
		}
	}
	// panics recovered by the supervising loops are reported by govnr on stdout: capture it
	realStdout := os.Stdout
	pr, pw, err := os.Pipe()
	if err != nil {
		return err
	}
	os.Stdout = pw
	var capMu sync.Mutex
	var captured bytes.Buffer
	capDone := make(chan struct{})
	go func() {
		buf := make([]byte, 65536)
		for {
			k, err := pr.Read(buf)
			if k > 0 {
				capMu.Lock()
				if captured.Len() < 4<<20 {
					captured.Write(buf[:k])
				}
				capMu.Unlock()
			}
			if err != nil {
				close(capDone)
				return
			}
		}
	}()
	var cases []string
	for i := 0; i < count; i++ {
		for attempt := 0; ; attempt++ {
			final := rep
			rep := newReport("runtime", cfg) // scratch: merged into the engine's report once the scenario is judged
			runtime.GC()
			time.Sleep(20 * time.Millisecond)
			baseline := runtime.NumGoroutine()
			seed := cfg.seed*100000 + int64(i)
			sw := startStallWatch()
			c := newRtCluster(seed, rep)
			c.run(cfg.tier != "thorough")
			c.monitors()
			// goroutine accounting
			leak := true
			for t := 0; t < 150; t++ {
				if runtime.NumGoroutine() <= baseline {
					leak = false
					break
				}
				time.Sleep(20 * time.Millisecond)
			}
			if leak {
				var b bytes.Buffer
				pprof.Lookup("goroutine").WriteTo(&b, 1)
				var lh []string
				for _, blk := range strings.Split(b.String(), "\n\n") {
					if strings.Contains(blk, "lean-helix-go") && !strings.Contains(blk, "lhverif") {
						lh = append(lh, blk)
					}
				}
				sort.Strings(lh)
				if len(lh) > 0 {
					rep.finding("C16", "goroutine-leak", fmt.Sprintf("%d goroutines before the scenario, %d after shutdown; %d of them inside the library", baseline, runtime.NumGoroutine(), len(lh)),
						map[string]interface{}{"seed": seed, "stacks": head(lh, 6)})
				} else {
					rep.count("runtime:harness-goroutines-lingering")
				}
			}
			evs := c.log.snapshot()
			rep.Evaluations += len(evs)
			capMu.Lock()
			out := captured.String()
			captured.Reset()
			capMu.Unlock()
			if k := strings.Count(out, "recovered panic"); k > 0 {
				idx := strings.Index(out, "recovered panic")
				lo := idx - 300
				if lo < 0 {
					lo = 0
				}
				hi := idx + 1500
				if hi > len(out) {
					hi = len(out)
				}
				rep.finding("C12", "panic-reached-supervisor", fmt.Sprintf("%d panics were recovered by the loops' supervisor in scenario seed %d", k, seed), map[string]interface{}{"seed": seed, "log": out[lo:hi]})
			}
			if i < 2 {
				rep.sample(map[string]interface{}{"seed": seed, "events": len(evs), "top_height": c.top(), "head": head(evStrings(evs), 25)}, 4)
			}
			rep.count(fmt.Sprintf("runtime:top-height>=%d", minU(c.top()/5*5, 40)))
			stalled := sw.finish()
			if stalled && attempt < 3 {
				final.count("runtime:scenario-repeated-after-machine-stall")
				continue
			}
			if stalled {
				final.count("runtime:scenario-inconclusive-machine-stalled")
			}
			final.merge(rep, !stalled)
			if !stalled {
				cases = append(cases, c.coqCases()...)
			}
			break
		}
	}
	for attempt := 0; ; attempt++ {
		scratch := newReport("runtime", cfg)
		sw := startStallWatch()
		runDirected(scratch, cfg.seed*7919, cfg.tier == "thorough")
		stalled := sw.finish()
		if stalled && attempt < 3 {
			rep.count("runtime:directed-repeated-after-machine-stall")
			continue
		}
		if stalled {
			rep.count("runtime:directed-inconclusive-machine-stalled")
		}
		rep.merge(scratch, !stalled)
		break
	}
	os.Stdout = realStdout
	pw.Close()
	<-capDone
	rep.DistinctNontr = rep.Distribution["runtime:commit"]
	rep.Rule = "per node, in worker order: rounds and commits strictly increase, timer armed only for the current position, triggers at most once per arming / not before the timeout / acted upon only when current, blocked SPI calls released by election, sync or shutdown, accepted syncs take effect, no first leader after sync, shutdown completes from every point with nothing afterwards and no goroutine left, no panic reaches the supervisor, progress after malformed traffic; each node's observation sequence is accepted by the model's trace automaton (Runtime.v)"
	cf := newCaseFile("From LH Require Import Prims Corr Runtime.\nOpen Scope N_scope.\n")
	cf.addShards("rt", "list robs", "rt_check", cases, 200)
	p := filepath.Join(cfg.outDir, "cases_runtime.v")
	if err := cf.write(p); err != nil {
		return err
	}
	rep.CaseFiles = append(rep.CaseFiles, p)
	return rep.write(cfg.outDir)
}

func evStrings(evs []rtEv) []string {
	var s []string
	for _, e := range evs {
		s = append(s, fmt.Sprintf("%dus n%d %s h=%d v=%d a=%d b=%v %s", e.Ms, e.Node, e.Kind, e.H, e.V, e.A, e.B, e.S))
	}
	return s
}
