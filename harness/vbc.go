package main

// vbc engine: the real ValidateBlockConsensus / GetMemberIdsFromBlockProof on generated certificates — honest ones,
// each field mutated, weights exactly at the thresholds, outsiders, duplicates, wrong seeds, both modes — and on
// truncated, mangled and random proof bytes (C02, C12).

import (
	"context"
	"errors"
	"fmt"
	"math/rand"
	"path/filepath"

	leanhelix "github.com/orbs-network/lean-helix-go"
	"github.com/orbs-network/lean-helix-go/services/interfaces"
	"github.com/orbs-network/lean-helix-go/services/randomseed"
	"github.com/orbs-network/lean-helix-go/spec/types/go/primitives"
	"github.com/orbs-network/lean-helix-go/spec/types/go/protocol"
)

func init() { engines["vbc"] = runVBC }

type vbcMembership struct {
	me    primitives.MemberId
	cm    []interfaces.CommitteeMember
	err   bool
	h     primitives.BlockHeight      // the height cm is the committee of
	t     primitives.TimestampSeconds // ... as of this reference time of the previous block
	decoy []interfaces.CommitteeMember // what Membership answers for every other height or reference time
}

func (m *vbcMembership) MyMemberId() primitives.MemberId { return m.me }
func (m *vbcMembership) RequestOrderedCommittee(ctx context.Context, h primitives.BlockHeight, seed uint64, t primitives.TimestampSeconds) ([]interfaces.CommitteeMember, error) {
	return m.cm, nil
}
func (m *vbcMembership) RequestCommitteeForBlockProof(ctx context.Context, h primitives.BlockHeight, t primitives.TimestampSeconds) ([]interfaces.CommitteeMember, error) {
	if m.err {
		return nil, errors.New("committee unavailable")
	}
	if m.decoy != nil && (h != m.h || t != m.t) {
		return m.decoy, nil // committees change with height and time: only the block's own height and its parent's time give the right one
	}
	return m.cm, nil
}

func runVBC(cfg *runCfg) error {
	r := rand.New(rand.NewSource(cfg.seed))
	rep := newReport("vbc", cfg)
	n := 1500
	if cfg.tier == "thorough" {
		n = 20000
	}
	if cfg.n > 0 {
		n = cfg.n
	}
	kr := newKeyring(cfg.seed)
	cd := newCodec(kr)
	var cases []string
	for i := 0; i < n; i++ {
		size := 4 + r.Intn(5)
		ws := make([]uint64, size)
		switch r.Intn(5) {
		case 4: // a committee without weight (and, sometimes, without members)
			if r.Intn(2) == 0 {
				size = 0
				ws = nil
			}
			rep.count("committee:zero-total-weight")
		case 0:
			for j := range ws {
				ws[j] = 1
			}
		case 1:
			for j := range ws {
				ws[j] = uint64(r.Intn(5))
			}
		case 2:
			for j := range ws {
				ws[j] = 1
			}
			if size > 0 {
				ws[r.Intn(size)] = uint64(3 + r.Intn(8))
			}
		case 3: // totals around 2^53 and 2^63 (the float arithmetic of finding F5 is wrong there)
			base := []uint64{1 << 53, 1 << 62, 1 << 63, 3 << 62, ^uint64(0) - 63}[r.Intn(5)] // at and above 2^63 doubling the total wraps
			for j := range ws {
				ws[j] = base/uint64(len(ws)) + uint64(r.Intn(3))
			}
		}
		ids := make([]uint64, size)
		var cm []interfaces.CommitteeMember
		total := uint64(0)
		for j := range ids {
			ids[j] = uint64(j)
			cm = append(cm, interfaces.CommitteeMember{Id: idBytes(uint64(j)), Weight: primitives.MemberWeight(ws[j])})
			total += ws[j]
		}
		f := uint64(0)
		if total > 0 {
			f = (total - 1) / 3
		}
		q := total - f
		if total == 0 {
			q = 1
		}
		inst := uint64(7)
		mem := &vbcMembership{me: idBytes(0), cm: cm, err: r.Intn(40) == 0}
		node := leanhelix.VerifNewNode(&interfaces.Config{InstanceId: primitives.InstanceId(inst), Membership: mem, BlockUtils: &nodeBlockUtilsLite{}, KeyManager: &keyManager{kr, idBytes(0)}}, nil, nil)
		h := uint64(1 + r.Intn(5))
		blk := &vblock{height: primitives.BlockHeight(h), id: uint64(100 + r.Intn(50))}
		cd.registerBlock(blk)
		ref := aRef{3, inst, h, uint64(r.Intn(4)), blk.id}
		// signer set: aim the weight at a threshold
		target := []uint64{q, q, f + 1, f, q - 1, total}[r.Intn(6)]
		perm := r.Perm(size)
		if total == 0 && r.Intn(2) == 0 {
			perm = nil // no signers at all
		}
		var signers []aSig
		acc := uint64(0)
		for _, j := range perm {
			if acc >= target {
				break
			}
			signers = append(signers, aSig{uint64(j), true})
			acc += ws[j]
		}
		seedOkWanted := true
		prevProof := cd.syncProof(h - 1)
		seedSig := kr.masterSeed(primitives.BlockHeight(h), randomseed.RandomSeedToBytes(randomseed.CalculateRandomSeed(cd.seedSig(h-1))))
		// one mutation (or none)
		mut := "none"
		switch r.Intn(16) {
		case 0:
			ref.Type = uint64(r.Intn(6))
			mut = "type"
		case 1:
			ref.Inst++
			mut = "instance"
		case 2:
			ref.Height += uint64(1 + r.Intn(2))
			mut = "height"
		case 3:
			ref.Hash = 999
			mut = "hash"
		case 4:
			if len(signers) > 0 {
				signers[r.Intn(len(signers))].Ok = false
				mut = "bad-signature"
			}
		case 5:
			if len(signers) > 0 {
				signers = append(signers, signers[r.Intn(len(signers))])
				mut = "duplicate-signer"
			}
		case 6:
			signers = append(signers, aSig{uint64(size + r.Intn(2)), true})
			mut = "outsider"
		case 7:
			seedSig = []byte("wrong-seed-signature")
			seedOkWanted = false
			mut = "wrong-seed"
		case 8:
			seedSig = nil
			mut = "empty-seed"
		case 9:
			prevProof = cd.syncProof(h) // seed derived from another previous proof
			mut = "other-prev-proof"
		case 10:
			if len(signers) > 0 {
				signers = signers[:len(signers)-1]
				mut = "drop-signer"
			}
		}
		_ = seedOkWanted
		rep.count("mutation:" + mut)
		rb := cd.encRef(ref)
		refRaw := rb.Build().Raw()
		pb := &protocol.BlockProofBuilder{BlockRef: rb, RandomSeedSignature: seedSig}
		for _, s := range signers {
			pb.Nodes = append(pb.Nodes, cd.encSig(s, ref.Height, refRaw))
		}
		bytesP := pb.Build().Raw()
		switch r.Intn(14) {
		case 0:
			bytesP = bytesP[:r.Intn(len(bytesP)+1)]
			rep.count("bytes:truncated")
		case 1:
			o := 4 * r.Intn(len(bytesP)/4)
			v := []uint32{0, uint32(len(bytesP)), 1 << 31, ^uint32(0) - 3, ^uint32(0)}[r.Intn(5)]
			bytesP[o], bytesP[o+1], bytesP[o+2], bytesP[o+3] = byte(v), byte(v>>8), byte(v>>16), byte(v>>24)
			rep.count("bytes:size-word")
		case 2:
			bytesP = make([]byte, r.Intn(20))
			r.Read(bytesP)
			rep.count("bytes:random")
		case 3:
			bytesP = []byte{0xFF, 0xFF, 0xFF, 0xFF, 0, 0, 0, 0, 0, 0, 0, 0}
			rep.count("bytes:F7-witness")
		}
		soft := r.Intn(2) == 0
		var block interfaces.Block = blk
		blkCoq := absBlock(blk).coq()
		if r.Intn(30) == 0 {
			block, blkCoq = nil, "None"
		}
		ctx, cancel := context.WithCancel(context.Background())
		cc := r.Intn(40) == 0
		if cc {
			cancel()
		}
		// decode with the repo's readers (abstract view + flags)
		proofCoq, idsCoq := "None", "None"
		var dec struct {
			ok     bool
			ref    aRef
			nodes  []aSig
			seedNE bool
			seedOK bool
		}
		func() {
			defer func() { recover() }()
			if len(bytesP) == 0 {
				return
			}
			rd := protocol.BlockProofReader(bytesP)
			br := rd.BlockRef()
			dec.ref = cd.decRef(br)
			it := rd.NodesIterator()
			for it.HasNext() {
				dec.nodes = append(dec.nodes, cd.decSig(br.BlockHeight(), br.Raw(), it.NextNodes()))
			}
			ss := rd.RandomSeedSignature()
			dec.seedNE = len(ss) > 0
			prev := protocol.BlockProofReader(prevProof)
			want := kr.masterSeed(br.BlockHeight(), randomseed.RandomSeedToBytes(randomseed.CalculateRandomSeed(prev.RandomSeedSignature())))
			dec.seedOK = string(want) == string(ss)
			if block != nil {
				dec.seedOK = string(kr.masterSeed(block.Height(), randomseed.RandomSeedToBytes(randomseed.CalculateRandomSeed(prev.RandomSeedSignature())))) == string(ss)
			}
			dec.ok = true
		}()
		if dec.ok {
			proofCoq = fmt.Sprintf("(Some (AP %s %s %s %s))", dec.ref.coq(), coqSigs(dec.nodes), cBool(dec.seedNE), cBool(dec.seedOK))
			idl := make([]uint64, len(dec.nodes))
			for k, s := range dec.nodes {
				idl[k] = s.Id
			}
			idsCoq = "(Some " + cListN(idl) + ")"
		}
		if len(bytesP) == 0 {
			idsCoq = "None"
		}
		// the implementation
		var verdict bool
		func() {
			defer func() {
				if e := recover(); e != nil {
					rep.finding("C12", "validate-block-consensus-panics", fmt.Sprintf("ValidateBlockConsensus panicked: %v", e), fmt.Sprintf("%x", bytesP))
				}
			}()
			// the committee of another height: made of exactly the proof's signers (so that a certificate too light for the
			// real committee is a full quorum of it) or of strangers (so that a genuine certificate is worthless under it)
			mem.h = primitives.BlockHeight(h)
			if r.Intn(2) == 0 {
				for _, sg := range signers {
					mem.decoy = append(mem.decoy, interfaces.CommitteeMember{Id: idBytes(sg.Id), Weight: 1})
				}
			}
			if len(mem.decoy) == 0 {
				for j := 0; j < 4; j++ {
					mem.decoy = append(mem.decoy, interfaces.CommitteeMember{Id: idBytes(uint64(200 + j)), Weight: 1})
				}
			}
			// prevBlock: absent, the parent, or some other block - the verdict may not depend on it
			var prevBlk interfaces.Block
			switch r.Intn(4) {
			case 1:
				if h > 1 {
					prevBlk = &vblock{height: primitives.BlockHeight(h - 1), id: 90}
				}
			case 2:
				prevBlk = &vblock{height: primitives.BlockHeight(h + uint64(r.Intn(3))), id: 91}
			case 3:
				prevBlk = &vblock{height: primitives.BlockHeight(uint64(r.Intn(int(h)))), id: 92}
			}
			if prevBlk != nil {
				rep.count(fmt.Sprintf("prevblock:height-delta-%d", int64(uint64(prevBlk.Height()))-int64(h)))
			}
			if prevBlk != nil {
				mem.t = prevBlk.ReferenceTime()
			}
			if r.Intn(2) == 0 {
				// an earlier call on the same node for the same height with a previous block of another time (any verdict):
				// a validation must not depend on the calls before it
				func() {
					defer func() { recover() }()
					node.ValidateBlockConsensus(ctx, block, bytesP, &vblock{height: primitives.BlockHeight(h + 7), id: 93}, prevProof, soft)
				}()
				rep.count("prior-call-same-height-other-committee")
			}
			verdict = node.ValidateBlockConsensus(ctx, block, bytesP, prevBlk, prevProof, soft) == nil
		}()
		var gotIds []primitives.MemberId
		var idErr error
		func() {
			defer func() {
				if e := recover(); e != nil {
					rep.finding("C12", "get-member-ids-panics", fmt.Sprintf("GetMemberIdsFromBlockProof panicked: %v", e), fmt.Sprintf("%x", bytesP))
					idErr = errors.New("panic")
				}
			}()
			gotIds, idErr = leanhelix.GetMemberIdsFromBlockProof(bytesP)
		}()
		obsIds := "None"
		if idErr == nil {
			l := make([]uint64, len(gotIds))
			for k, x := range gotIds {
				l[k] = memberTok(x)
			}
			obsIds = "(Some " + cListN(l) + ")"
		}
		cancel()
		// reference predicate (independent of the code): accept only genuine certificates
		if verdict {
			rep.count("verdict:accepted")
			okRef := dec.ok && !cc && block != nil && dec.ref.Type == 3 && dec.ref.Inst == inst && dec.ref.Height == h && dec.ref.Hash == blk.id && dec.seedNE && dec.seedOK && !mem.err
			seen := map[uint64]bool{}
			w := uint64(0)
			for _, s := range dec.nodes {
				if !s.Ok || seen[s.Id] || s.Id >= uint64(size) {
					okRef = false
				} else {
					w += ws[s.Id]
				}
				seen[s.Id] = true
			}
			if soft {
				okRef = okRef && w > f
			} else {
				okRef = okRef && w >= q
			}
			if !okRef {
				rep.finding("C02", "accepted-without-genuine-certificate", fmt.Sprintf("ValidateBlockConsensus(soft=%v) accepted: mutation=%s weight=%d Q=%d f=%d", soft, mut, w, q, f), fmt.Sprintf("%x", bytesP))
			}
		} else {
			rep.count("verdict:rejected")
		}
		cmCoq := "None"
		if !mem.err {
			ms := make([]string, size)
			for j := range ids {
				ms[j] = cPair(cN(ids[j]), cN(ws[j]))
			}
			cmCoq = "(Some " + cList(ms) + ")"
		}
		cases = append(cases, fmt.Sprintf("(VC %d %s, %s, %s, %s, %s, %s, %s, %s)", inst, cmCoq, cBool(cc), blkCoq, cBool(len(bytesP) == 0), proofCoq, cBool(soft), cBool(verdict), obsIds))
		_ = idsCoq
		rep.sample(map[string]interface{}{"mutation": mut, "soft": soft, "accepted": verdict, "proof_len": len(bytesP)}, 5)
	}
	rep.Evaluations = n
	rep.DistinctNontr = rep.Distribution["verdict:accepted"] + rep.Distribution["verdict:rejected"]
	rep.Rule = "certificates over committees of 4..8 members (unit / random / heavy weights, totals near 2^53, 2^62, 2^63, 3*2^62 and 2^64) with signer sets aimed at Q, Q-1, f, f+1 and W, one field mutation each (type, instance, height, hash, bad signature, duplicate, outsider, wrong / empty seed, other previous proof, dropped signer), strict and soft mode, cancelled context, nil block, failing Membership, truncated / size-mangled / random bytes and the F7 witness; every case is distinct by construction with overwhelming probability; non-trivial = a verdict was compared"
	cf := newCaseFile("From LH Require Import Prims Quorum Msg Term VBC Corr.\nOpen Scope N_scope.")
	cf.addShards("vc", "vcase", "v_ok", cases, 500)
	p := filepath.Join(cfg.outDir, "cases_vbc.v")
	if err := cf.write(p); err != nil {
		return err
	}
	rep.CaseFiles = []string{p}
	return rep.write(cfg.outDir)
}

// block utils for the vbc engine: only ValidateBlockCommitment is used
type nodeBlockUtilsLite struct{}

func (b *nodeBlockUtilsLite) RequestNewBlockProposal(ctx context.Context, h primitives.BlockHeight, me primitives.MemberId, prev interfaces.Block) (interfaces.Block, primitives.BlockHash) {
	return nil, nil
}
func (b *nodeBlockUtilsLite) ValidateBlockProposal(ctx context.Context, h primitives.BlockHeight, leader primitives.MemberId, block interfaces.Block, hash primitives.BlockHash, prev interfaces.Block) error {
	return nil
}
func (b *nodeBlockUtilsLite) ValidateBlockCommitment(h primitives.BlockHeight, block interfaces.Block, hash primitives.BlockHash) bool {
	vb, _ := block.(*vblock)
	if block == nil || vb == nil {
		return false
	}
	return vb.height == h && string(blockHash(vb)) == string(hash)
}
