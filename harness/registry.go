package main

// registry engine: ViewContexts and State operation sequences on a single goroutine (C15a, C13a).

import (
	"time"
	"sync"
	"sync/atomic"
	"context"
	"fmt"
	"math/rand"
	"path/filepath"

	"github.com/orbs-network/lean-helix-go/spec/types/go/primitives"
	"github.com/orbs-network/lean-helix-go/state"
)

func init() {
	engines["registry"] = runRegistry
	engines["statehv"] = runStateHV
}

type rop struct {
	Kind string `json:"kind"` // for | cancel | shutdown
	H, V uint64
}

func (o rop) coq() string {
	switch o.Kind {
	case "for":
		return fmt.Sprintf("RFor (%d, %d)", o.H, o.V)
	case "cancel":
		return fmt.Sprintf("RCancelOlder (%d, %d)", o.H, o.V)
	}
	return "RShutdown"
}

var regBlocked int32 // operations of the registry that did not return (each costs a watchdog period; stop probing after a few)

func hvOlder(a, b [2]uint64) bool { return a[0] < b[0] || (a[0] == b[0] && a[1] < b[1]) }

// runRegistrySeq runs ops on a fresh real registry; returns the Coq observation and monitor findings.
func runRegistrySeq(ops []rop, rep *Report) string {
	reg := state.NewViewContexts()
	type issuedCtx struct {
		key [2]uint64
		ctx context.Context
		pos int // op index at which it was handed out first
	}
	var issued []issuedCtx
	byKey := map[[2]uint64]context.Context{}
	var obs []string
	var cancelArgs [][2]uint64 // with op position
	var cancelPos []int
	shutdownAt := -1
	for i, o := range ops {
		ok := true
		// every operation of the registry returns at once, whatever happened before (after Shutdown in particular: the
		// worker may ask for several contexts on its way out); one that does not is reported and the sequence abandoned
		if shutdownAt >= 0 && atomic.LoadInt32(&regBlocked) >= 3 {
			break
		}
		var ctx context.Context
		var err error
		returned := make(chan struct{})
		go func(o rop) {
			defer close(returned)
			switch o.Kind {
			case "for":
				ctx, err = reg.For(state.NewHeightView(primitives.BlockHeight(o.H), primitives.View(o.V)))
			case "cancel":
				reg.CancelOlderThan(state.NewHeightView(primitives.BlockHeight(o.H), primitives.View(o.V)))
			case "shutdown":
				reg.Shutdown()
			}
		}(o)
		select {
		case <-returned:
		case <-time.After(300 * time.Millisecond):
			atomic.AddInt32(&regBlocked, 1)
			what := fmt.Sprintf("operation %d (%s) of the context registry did not return within 300 ms", i, o.coq())
			rep.finding("C15", "registry-operation-blocked", what, ops)
			rep.finding("C16", "registry-operation-blocked", what+" (a worker asking for a context on its way out of a shutdown would hang there)", ops)
			cops := make([]string, len(ops))
			for k, oo := range ops {
				cops[k] = oo.coq()
			}
			return fmt.Sprintf("(%s, %s)", cList(cops), cList(obs))
		}
		switch o.Kind {
		case "for":
			ok = err == nil
			key := [2]uint64{o.H, o.V}
			if ok {
				if prev, seen := byKey[key]; seen {
					if prev != ctx {
						rep.finding("C15", "second-context-for-one-key", fmt.Sprintf("For(%v) returned a different context than before", key), ops)
					}
				} else {
					byKey[key] = ctx
					issued = append(issued, issuedCtx{key, ctx, i})
				}
				// a context is never handed out for a superseded (height, view)
				for _, ca := range cancelArgs {
					if hvOlder(key, ca) {
						rep.finding("C15", "context-for-superseded-hv", fmt.Sprintf("For(%v) succeeded after CancelOlderThan(%v)", key, ca), ops)
					}
				}
				if ctx.Err() != nil && shutdownAt < 0 {
					rep.finding("C15", "context-handed-out-cancelled", fmt.Sprintf("For(%v) returned an already cancelled context", key), ops)
				}
			}
		case "cancel":
			cancelArgs = append(cancelArgs, [2]uint64{o.H, o.V})
			cancelPos = append(cancelPos, i)
		case "shutdown":
			if shutdownAt < 0 {
				shutdownAt = i
			}
		}
		flags := make([]string, len(issued))
		for j, ic := range issued {
			done := ic.ctx.Err() != nil
			flags[j] = cBool(done)
			// monitor: done iff shutdown happened or a later CancelOlderThan had a newer argument
			want := shutdownAt >= 0
			for k, ca := range cancelArgs {
				if cancelPos[k] > ic.pos && hvOlder(ic.key, ca) {
					want = true
				}
			}
			if done != want {
				sig := "context-not-cancelled-when-superseded"
				if done {
					sig = "context-cancelled-by-event-about-older-position"
				}
				rep.finding("C15", sig, fmt.Sprintf("after op %d context %v done=%v expected %v", i, ic.key, done, want), ops)
			}
		}
		obs = append(obs, fmt.Sprintf("(%s, %s)", cBool(ok), cList(flags)))
	}
	cops := make([]string, len(ops))
	for i, o := range ops {
		cops[i] = o.coq()
	}
	return fmt.Sprintf("(%s, %s)", cList(cops), cList(obs))
}

func runRegistry(cfg *runCfg) error {
	r := rand.New(rand.NewSource(cfg.seed))
	rep := newReport("registry", cfg)
	var alphabet []rop
	for h := uint64(1); h <= 2; h++ {
		for v := uint64(0); v <= 1; v++ {
			alphabet = append(alphabet, rop{"for", h, v}, rop{"cancel", h, v})
		}
	}
	alphabet = append(alphabet, rop{"shutdown", 0, 0})
	depth := 4
	if cfg.tier == "thorough" {
		depth = 5
	}
	var cases []string
	var rec func(prefix []rop)
	rec = func(prefix []rop) {
		if len(prefix) == depth {
			cases = append(cases, runRegistrySeq(prefix, rep))
			rep.sample(append([]rop{}, prefix...), 3)
			return
		}
		for _, o := range alphabet {
			rec(append(prefix, o))
		}
	}
	rec(nil)
	rep.Distribution["exhaustive-sequences-depth-"+fmt.Sprint(depth)] = len(cases)
	exh := len(cases)
	nr := 400
	if cfg.tier == "thorough" {
		nr = 4000
	}
	for i := 0; i < nr; i++ {
		n := 5 + r.Intn(40)
		ops := make([]rop, n)
		maxH := uint64(1 + r.Intn(5))
		for j := range ops {
			var v uint64
			switch r.Intn(6) {
			case 0:
				v = ^uint64(0) // MaxView umbrella
			default:
				v = uint64(r.Intn(4))
			}
			h := 1 + uint64(r.Int63n(int64(maxH)))
			switch k := r.Intn(20); {
			case k < 11:
				ops[j] = rop{"for", h, v}
			case k < 19:
				ops[j] = rop{"cancel", h, v}
			default:
				ops[j] = rop{"shutdown", 0, 0}
			}
		}
		cases = append(cases, runRegistrySeq(ops, rep))
		rep.count("random-long-sequences")
		rep.sample(ops, 5)
	}
	rep.Evaluations = len(cases)
	rep.DistinctNontr = exh - 1 + nr
	rep.Rule = fmt.Sprintf("all %d sequences of exactly %d operations over For/CancelOlderThan on keys {1,2}x{0,1} and Shutdown (exhaustive for that depth; sequences are pairwise distinct), plus %d random sequences of 5..45 ops over heights 1..5, views 0..3 and MaxView; non-trivial = at least one context handed out", exh, depth, nr)
	rep.Extra["exhaustive_depth"] = depth
	cf := newCaseFile("From LH Require Import Prims Contexts Corr.\nOpen Scope N_scope.")
	cf.addShards("rc", "rcase", "r_ok", cases, 1000)
	p := filepath.Join(cfg.outDir, "cases_registry.v")
	if err := cf.write(p); err != nil {
		return err
	}
	rep.CaseFiles = []string{p}
	return rep.write(cfg.outDir)
}

func runStateHV(cfg *runCfg) error {
	r := rand.New(rand.NewSource(cfg.seed))
	rep := newReport("statehv", cfg)
	n := 600
	if cfg.tier == "thorough" {
		n = 6000
	}
	var cases []string
	for i := 0; i < n; i++ {
		st := state.NewState()
		k := 3 + r.Intn(25)
		var ops, obs []string
		ph, pv := uint64(0), uint64(0)
		for j := 0; j < k; j++ {
			var x uint64
			switch r.Intn(5) {
			case 0:
				x = ^uint64(0) - uint64(r.Intn(2))
			case 1:
				x = uint64(st.Height()) + uint64(r.Intn(3))
			default:
				x = uint64(r.Intn(6))
			}
			var hvv *state.HeightView
			var err error
			if r.Intn(2) == 0 {
				hvv, err = st.SetHeightAndResetView(primitives.BlockHeight(x))
				ops = append(ops, fmt.Sprintf("SSetHeight %d", x))
				rep.count("op:set-height")
			} else {
				hvv, err = st.SetView(primitives.View(x))
				ops = append(ops, fmt.Sprintf("SSetView %d", x))
				rep.count("op:set-view")
			}
			_ = hvv
			h, v := uint64(st.Height()), uint64(st.View())
			obs = append(obs, fmt.Sprintf("(%s, %d, %d)", cBool(err == nil), h, v))
			if h < ph || (h == ph && v < pv) {
				rep.finding("C13", "state-hv-decreased", fmt.Sprintf("(%d,%d) -> (%d,%d)", ph, pv, h, v), ops)
			}
			if h > ph && v != 0 {
				rep.finding("C13", "view-not-reset-on-height-increase", fmt.Sprintf("(%d,%d) -> (%d,%d)", ph, pv, h, v), ops)
			}
			if err != nil {
				rep.count("result:rejected")
			}
			ph, pv = h, v
		}
		cases = append(cases, fmt.Sprintf("(%s, %s)", cList(ops), cList(obs)))
		rep.sample(ops, 3)
	}
	// observers on other goroutines: the (height, view) pair they read never goes back while the only writer moves
	// through views and heights (the pair is one observable, read under one lock)
	{
		st := state.NewState()
		stop := make(chan struct{})
		var wg sync.WaitGroup
		var bad atomic.Value
		for o := 0; o < 4; o++ {
			wg.Add(1)
			go func() {
				defer wg.Done()
				var ph, pv uint64
				for {
					select {
					case <-stop:
						return
					default:
					}
					hv := st.HeightView()
					h, v := uint64(hv.Height()), uint64(hv.View())
					if h < ph || (h == ph && v < pv) {
						bad.Store(fmt.Sprintf("snapshot (%d,%d) was followed by snapshot (%d,%d)", ph, pv, h, v))
						return
					}
					ph, pv = h, v
				}
			}()
		}
		terms := 30000
		if cfg.tier == "thorough" {
			terms = 300000
		}
		for h := 1; h <= terms && bad.Load() == nil; h++ {
			st.SetHeightAndResetView(primitives.BlockHeight(h))
			for v := 1; v <= 3; v++ {
				st.SetView(primitives.View(v))
			}
		}
		close(stop)
		wg.Wait()
		rep.count("concurrent:observer-stress")
		if b := bad.Load(); b != nil {
			rep.finding("C13", "state-hv-decreased", "seen from another goroutine through State.HeightView(): "+b.(string), map[string]interface{}{"writer": "SetHeightAndResetView(h); SetView(1); SetView(2); SetView(3) for h = 1, 2, ...", "observers": 4})
		}
	}
	rep.Evaluations = n
	rep.DistinctNontr = n
	rep.Rule = "random sequences of 3..27 SetHeightAndResetView/SetView calls with small, relative and near-2^64 arguments; compared: error flag and (height, view) after each call"
	cf := newCaseFile("From LH Require Import Prims Contexts Corr.\nOpen Scope N_scope.")
	cf.addShards("sc", "scase", "s_ok", cases, 1000)
	p := filepath.Join(cfg.outDir, "cases_statehv.v")
	if err := cf.write(p); err != nil {
		return err
	}
	rep.CaseFiles = []string{p}
	return rep.write(cfg.outDir)
}
