package main

// wire engine: lean-helix messages with arbitrary field values built with the repo's builders / message factory,
// read back with the repo's readers; the bytes must equal the Gallina builder's byte for byte and the readers must
// agree with the Gallina reader, also on truncated / bit-flipped bytes (under recover) — C20, C12.

import (
	"bytes"
	"fmt"
	"math/rand"
	"path/filepath"
	"strings"

	"github.com/orbs-network/lean-helix-go/services/blockproof"
	"github.com/orbs-network/lean-helix-go/services/interfaces"
	"github.com/orbs-network/lean-helix-go/spec/types/go/primitives"
	"github.com/orbs-network/lean-helix-go/spec/types/go/protocol"
)

func init() { engines["wire"] = runWire }

type wSig struct{ Id, Sig []byte }
type wRef struct {
	Inst, Type, Height, View uint64
	Hash                     []byte
}
type wProof struct {
	PPRef wRef
	PPSnd wSig
	PRef  wRef
	PSnds []wSig
}
type wVote struct {
	Inst, Type, Height, View uint64
	Proof                    *wProof
	Snd                      wSig
}
type wMsg struct {
	Kind  string
	Ref   wRef
	Snd   wSig
	Share []byte
	Vote  *wVote
	Inst, Type, Height, View uint64
	Votes []wVote
	PPSnd wSig
}

func cBytes(b []byte) string {
	s := make([]string, len(b))
	for i, x := range b {
		s[i] = fmt.Sprintf("%d", x)
	}
	return "[" + strings.Join(s, ";") + "]"
}
func (s wSig) coq() string { return fmt.Sprintf("(WS %s %s)", cBytes(s.Id), cBytes(s.Sig)) }
func (r wRef) coq() string {
	return fmt.Sprintf("(WR %d %d %d %d %s)", r.Inst, r.Type, r.Height, r.View, cBytes(r.Hash))
}
func wsigs(l []wSig) string {
	s := make([]string, len(l))
	for i, x := range l {
		s[i] = x.coq()
	}
	return cList(s)
}
func (p *wProof) coq() string {
	if p == nil {
		return "None"
	}
	return fmt.Sprintf("(Some (WPF %s %s %s %s))", p.PPRef.coq(), p.PPSnd.coq(), p.PRef.coq(), wsigs(p.PSnds))
}
func (v wVote) coq() string {
	return fmt.Sprintf("(WV %d %d %d %d %s %s)", v.Inst, v.Type, v.Height, v.View, v.Proof.coq(), v.Snd.coq())
}
func (m *wMsg) coq() string {
	switch m.Kind {
	case "PP":
		return fmt.Sprintf("(WPP %s %s)", m.Ref.coq(), m.Snd.coq())
	case "P":
		return fmt.Sprintf("(WP %s %s)", m.Ref.coq(), m.Snd.coq())
	case "C":
		return fmt.Sprintf("(WC %s %s %s)", m.Ref.coq(), m.Snd.coq(), cBytes(m.Share))
	case "VC":
		return fmt.Sprintf("(WVC %s)", m.Vote.coq())
	}
	vs := make([]string, len(m.Votes))
	for i, v := range m.Votes {
		vs[i] = v.coq()
	}
	return fmt.Sprintf("(WNV %d %d %d %d %s %s %s %s)", m.Inst, m.Type, m.Height, m.View, cList(vs), m.Snd.coq(), m.Ref.coq(), m.PPSnd.coq())
}
func coqOpt(m *wMsg) string {
	if m == nil {
		return "None"
	}
	return "(Some " + m.coq() + ")"
}

func rBytes(r *rand.Rand, rep *Report) []byte {
	var n int
	switch r.Intn(8) {
	case 0:
		n = 0
	case 1:
		n = 1 + r.Intn(3)
	case 2:
		n = 255 + r.Intn(3)
	case 3:
		n = 32
	default:
		n = r.Intn(40)
	}
	b := make([]byte, n)
	r.Read(b)
	return b
}
func rU64(r *rand.Rand) uint64 {
	switch r.Intn(6) {
	case 0:
		return ^uint64(0) - uint64(r.Intn(3))
	case 1:
		return 1<<63 + uint64(r.Intn(3))
	case 2:
		return 1<<32 - 1 + uint64(r.Intn(3))
	case 3:
		return r.Uint64()
	}
	return uint64(r.Intn(10))
}
func rSig(r *rand.Rand, rep *Report) wSig { return wSig{rBytes(r, rep), rBytes(r, rep)} }
func rRef(r *rand.Rand, rep *Report) wRef {
	return wRef{rU64(r), uint64(r.Intn(7)), rU64(r), rU64(r), rBytes(r, rep)}
}
func rProof(r *rand.Rand, rep *Report) *wProof {
	if r.Intn(3) == 0 {
		return nil
	}
	p := &wProof{PPRef: rRef(r, rep), PPSnd: rSig(r, rep), PRef: rRef(r, rep)}
	n := r.Intn(6)
	if r.Intn(10) == 0 {
		n = 20
	}
	for i := 0; i < n; i++ {
		p.PSnds = append(p.PSnds, rSig(r, rep))
	}
	return p
}
func rVote(r *rand.Rand, rep *Report) wVote {
	return wVote{rU64(r), uint64(r.Intn(7)), rU64(r), rU64(r), rProof(r, rep), rSig(r, rep)}
}

func bRef(x wRef) *protocol.BlockRefBuilder {
	return &protocol.BlockRefBuilder{MessageType: protocol.MessageType(x.Type), InstanceId: primitives.InstanceId(x.Inst), BlockHeight: primitives.BlockHeight(x.Height), View: primitives.View(x.View), BlockHash: x.Hash}
}
func bSig(x wSig) *protocol.SenderSignatureBuilder {
	return &protocol.SenderSignatureBuilder{MemberId: x.Id, Signature: x.Sig}
}
func bProof(p *wProof) *protocol.PreparedProofBuilder {
	if p == nil {
		return nil
	}
	b := &protocol.PreparedProofBuilder{PreprepareBlockRef: bRef(p.PPRef), PreprepareSender: bSig(p.PPSnd), PrepareBlockRef: bRef(p.PRef)}
	for _, s := range p.PSnds {
		b.PrepareSenders = append(b.PrepareSenders, bSig(s))
	}
	return b
}
func bVote(v wVote) *protocol.ViewChangeMessageContentBuilder {
	return &protocol.ViewChangeMessageContentBuilder{
		SignedHeader: &protocol.ViewChangeHeaderBuilder{MessageType: protocol.MessageType(v.Type), InstanceId: primitives.InstanceId(v.Inst), BlockHeight: primitives.BlockHeight(v.Height), View: primitives.View(v.View), PreparedProof: bProof(v.Proof)},
		Sender:       bSig(v.Snd)}
}

// buildRaw goes through the typed messages of services/interfaces and CreateConsensusRawMessage, as the node does
func buildRaw(m *wMsg) *interfaces.ConsensusRawMessage { return buildRawB(m, nil) }

// buildRawB: the same with a block attached where the kind carries one (PREPREPARE, VIEW_CHANGE, NEW_VIEW)
func buildRawB(m *wMsg, blk interfaces.Block) *interfaces.ConsensusRawMessage {
	switch m.Kind {
	case "PP":
		c := (&protocol.PreprepareContentBuilder{SignedHeader: bRef(m.Ref), Sender: bSig(m.Snd)}).Build()
		return interfaces.NewPreprepareMessage(c, blk).ToConsensusRawMessage()
	case "P":
		c := (&protocol.PrepareContentBuilder{SignedHeader: bRef(m.Ref), Sender: bSig(m.Snd)}).Build()
		return interfaces.NewPrepareMessage(c).ToConsensusRawMessage()
	case "C":
		c := (&protocol.CommitContentBuilder{SignedHeader: bRef(m.Ref), Sender: bSig(m.Snd), Share: m.Share}).Build()
		return interfaces.NewCommitMessage(c).ToConsensusRawMessage()
	case "VC":
		return interfaces.NewViewChangeMessage(bVote(*m.Vote).Build(), blk).ToConsensusRawMessage()
	}
	h := &protocol.NewViewHeaderBuilder{MessageType: protocol.MessageType(m.Type), InstanceId: primitives.InstanceId(m.Inst), BlockHeight: primitives.BlockHeight(m.Height), View: primitives.View(m.View)}
	for _, v := range m.Votes {
		h.ViewChangeConfirmations = append(h.ViewChangeConfirmations, bVote(v))
	}
	c := (&protocol.NewViewMessageContentBuilder{SignedHeader: h, Sender: bSig(m.Snd), Message: &protocol.PreprepareContentBuilder{SignedHeader: bRef(m.Ref), Sender: bSig(m.PPSnd)}}).Build()
	return interfaces.NewNewViewMessage(c, blk).ToConsensusRawMessage()
}

func cp(b []byte) []byte { return append([]byte{}, b...) }
func dSig(s *protocol.SenderSignature) wSig { return wSig{cp(s.MemberId()), cp(s.Signature())} }
func dRef(r *protocol.BlockRef) wRef {
	return wRef{uint64(r.InstanceId()), uint64(r.MessageType()), uint64(r.BlockHeight()), uint64(r.View()), cp(r.BlockHash())}
}
func dProof(p *protocol.PreparedProof) *wProof {
	if p == nil || len(p.Raw()) == 0 {
		return nil
	}
	res := &wProof{PPRef: dRef(p.PreprepareBlockRef()), PPSnd: dSig(p.PreprepareSender()), PRef: dRef(p.PrepareBlockRef())}
	it := p.PrepareSendersIterator()
	for it.HasNext() {
		res.PSnds = append(res.PSnds, dSig(it.NextPrepareSenders()))
	}
	return res
}
func dVote(v *protocol.ViewChangeMessageContent) wVote {
	h := v.SignedHeader()
	return wVote{uint64(h.InstanceId()), uint64(h.MessageType()), uint64(h.BlockHeight()), uint64(h.View()), dProof(h.PreparedProof()), dSig(v.Sender())}
}

// goDecode reads content bytes with the repo's readers exactly as the handlers do; panicked = a reader panicked
func goDecode(content []byte) (res *wMsg, panicked bool) {
	return goDecodeRaw(&interfaces.ConsensusRawMessage{Content: content})
}

// goDecodeRaw: the same on a raw-message struct the caller owns (a receive slot that is refilled for every message)
func goDecodeRaw(raw *interfaces.ConsensusRawMessage) (res *wMsg, panicked bool) {
	defer func() {
		if e := recover(); e != nil {
			res, panicked = nil, true
		}
	}()
	cm := interfaces.ToConsensusMessage(raw)
	switch m := cm.(type) {
	case *interfaces.PreprepareMessage:
		return &wMsg{Kind: "PP", Ref: dRef(m.Content().SignedHeader()), Snd: dSig(m.Content().Sender())}, false
	case *interfaces.PrepareMessage:
		return &wMsg{Kind: "P", Ref: dRef(m.Content().SignedHeader()), Snd: dSig(m.Content().Sender())}, false
	case *interfaces.CommitMessage:
		return &wMsg{Kind: "C", Ref: dRef(m.Content().SignedHeader()), Snd: dSig(m.Content().Sender()), Share: cp(m.Content().Share())}, false
	case *interfaces.ViewChangeMessage:
		v := dVote(m.Content())
		return &wMsg{Kind: "VC", Vote: &v}, false
	case *interfaces.NewViewMessage:
		h := m.Content().SignedHeader()
		r := &wMsg{Kind: "NV", Inst: uint64(h.InstanceId()), Type: uint64(h.MessageType()), Height: uint64(h.BlockHeight()), View: uint64(h.View()), Snd: dSig(m.Content().Sender())}
		it := h.ViewChangeConfirmationsIterator()
		for it.HasNext() {
			r.Votes = append(r.Votes, dVote(it.NextViewChangeConfirmations()))
		}
		pp := m.Content().Message()
		r.Ref, r.PPSnd = dRef(pp.SignedHeader()), dSig(pp.Sender())
		return r, false
	}
	return nil, false
}

func runWire(cfg *runCfg) error {
	r := rand.New(rand.NewSource(cfg.seed))
	rep := newReport("wire", cfg)
	n := 500
	if cfg.tier == "thorough" {
		n = 6000
	}
	if cfg.n > 0 {
		n = cfg.n
	}
	kr := newKeyring(cfg.seed)
	var cases, dcases, bcases []string
	slot := &interfaces.ConsensusRawMessage{}
	var prevRaw *interfaces.ConsensusRawMessage
	for i := 0; i < n; i++ {
		m := &wMsg{}
		switch r.Intn(5) {
		case 0:
			m.Kind, m.Ref, m.Snd = "PP", rRef(r, rep), rSig(r, rep)
		case 1:
			m.Kind, m.Ref, m.Snd = "P", rRef(r, rep), rSig(r, rep)
		case 2:
			m.Kind, m.Ref, m.Snd, m.Share = "C", rRef(r, rep), rSig(r, rep), rBytes(r, rep)
		case 3:
			v := rVote(r, rep)
			m.Kind, m.Vote = "VC", &v
		case 4:
			m.Kind, m.Inst, m.Type, m.Height, m.View, m.Snd, m.Ref, m.PPSnd = "NV", rU64(r), uint64(r.Intn(7)), rU64(r), rU64(r), rSig(r, rep), rRef(r, rep), rSig(r, rep)
			k := r.Intn(5)
			if r.Intn(12) == 0 {
				k = 20
			}
			for j := 0; j < k; j++ {
				m.Votes = append(m.Votes, rVote(r, rep))
			}
		}
		rep.count("built:" + m.Kind)
		raw := buildRaw(m)
		dec, pan := goDecode(raw.Content)
		if pan || dec == nil {
			rep.finding("C20", "built-message-does-not-read-back", fmt.Sprintf("%s: reader panicked=%v", m.Kind, pan), m.coq())
			continue
		}
		if dec.coq() != m.coq() {
			rep.finding("C20", "round-trip-changes-a-field", fmt.Sprintf("%s built %s read %s", m.Kind, clip([]string{m.coq()}), clip([]string{dec.coq()})), m.coq())
		}
		// the block travels beside the content: what was attached comes back, for every shape of the content
		if m.Kind == "PP" || m.Kind == "VC" || m.Kind == "NV" {
			blk := &vblock{height: 3, id: uint64(7000 + i)}
			back := interfaces.ToConsensusMessage(buildRawB(m, blk))
			var got interfaces.Block
			switch x := back.(type) {
			case *interfaces.PreprepareMessage:
				got = x.Block()
			case *interfaces.ViewChangeMessage:
				got = x.Block()
			case *interfaces.NewViewMessage:
				got = x.Block()
			}
			if got != interfaces.Block(blk) {
				rep.finding("C20", "block-lost-in-round-trip", fmt.Sprintf("%s built with a block attached, read back with block %v", m.Kind, got), m.coq())
			}
			rep.count("built-with-block:" + m.Kind)
		}
		// every signature that verified before still verifies over the re-read bytes: the signed bytes are the nested
		// header's Raw(); sign the standalone encoding, verify over the nested slice
		if m.Kind == "PP" || m.Kind == "P" || m.Kind == "C" {
			standalone := bRef(m.Ref).Build().Raw()
			sig := kr.signConsensus(idBytes(1), primitives.BlockHeight(m.Ref.Height), standalone)
			cm := interfaces.ToConsensusMessage(raw)
			var nested []byte
			switch x := cm.(type) {
			case *interfaces.PreprepareMessage:
				nested = x.Content().SignedHeader().Raw()
			case *interfaces.PrepareMessage:
				nested = x.Content().SignedHeader().Raw()
			case *interfaces.CommitMessage:
				nested = x.Content().SignedHeader().Raw()
			}
			if !kr.verifyConsensus(primitives.BlockHeight(m.Ref.Height), nested, idBytes(1), sig) {
				rep.finding("C20", "signature-does-not-verify-over-reread-bytes", m.Kind, m.coq())
			}
		}
		// parsing depends on the bytes alone: a receive slot that held another message before reads this one the same way
		slot.Content, slot.Block = cp(raw.Content), nil
		again, p2 := goDecodeRaw(slot)
		if !p2 && again != nil && again.coq() == dec.coq() && prevRaw != nil {
			// ... and so does the raw message the previous message was converted into (a struct that was CREATED for another message)
			prevRaw.Content, prevRaw.Block = cp(raw.Content), nil
			again, p2 = goDecodeRaw(prevRaw)
		}
		prevRaw = buildRaw(m)
		if p2 || again == nil || again.coq() != dec.coq() {
			rep.finding("C20", "parse-depends-on-how-the-bytes-were-produced", fmt.Sprintf("%s: the same bytes read through a raw-message struct that carried another message before give %s, read through a fresh one %s", m.Kind, clip([]string{coqOpt(again)}), clip([]string{dec.coq()})), m.coq())
		}
		rep.count("reread-through-a-reused-slot")
		cases = append(cases, fmt.Sprintf("(%s, %s, %s)", m.coq(), cBytes(raw.Content), coqOpt(dec)))
		rep.sample(map[string]interface{}{"kind": m.Kind, "content_len": len(raw.Content)}, 4)
		// mutated bytes: truncation at a random offset, a size word replaced, a bit flip, trailing bytes
		for k := 0; k < 2; k++ {
			mb := cp(raw.Content)
			var what string
			switch r.Intn(5) {
			case 0:
				mb = mb[:r.Intn(len(mb)+1)]
				what = "truncate"
			case 1:
				if len(mb) > 0 {
					mb[r.Intn(len(mb))] ^= 1 << uint(r.Intn(8))
				}
				what = "bitflip"
			case 2:
				mb = append(mb, make([]byte, 1+r.Intn(8))...)
				what = "trailing-bytes"
			case 3:
				if len(mb) >= 8 {
					o := 4 * r.Intn(len(mb)/4)
					v := []uint32{0, uint32(len(mb)), uint32(len(mb)) + 1, 1 << 31, ^uint32(0) - 3}[r.Intn(5)]
					mb[o], mb[o+1], mb[o+2], mb[o+3] = byte(v), byte(v>>8), byte(v>>16), byte(v>>24)
				}
				what = "size-word"
			case 4:
				mb = make([]byte, r.Intn(24))
				r.Read(mb)
				what = "random"
			}
			d, p := goDecode(mb)
			if p {
				rep.count("mutated:" + what + ":reader-panics")
				continue // hostile sizes: outside the wire model (uint32 wrap / slicing); C12 handles them with recover
			}
			rep.count("mutated:" + what)
			dcases = append(dcases, fmt.Sprintf("(%s, %s)", cBytes(mb), coqOpt(d)))
		}
	}
	// the same through the real message factory (wire_factory.go)
	cases = append(cases, factoryCases(r, rep, kr, n/2)...)
	// block proofs from commit messages
	for i := 0; i < n/5; i++ {
		ref := rRef(r, rep)
		ref.Type = 3
		k := r.Intn(6)
		var cms []*interfaces.CommitMessage
		var nodes []wSig
		for j := 0; j <= k; j++ {
			s := rSig(r, rep)
			nodes = append(nodes, s)
			c := (&protocol.CommitContentBuilder{SignedHeader: bRef(ref), Sender: bSig(s), Share: rBytes(r, rep)}).Build()
			cms = append(cms, interfaces.NewCommitMessage(c))
		}
		km := &keyManager{kr, idBytes(1)}
		bp := blockproof.GenerateLeanHelixBlockProof(km, cms)
		rd := protocol.BlockProofReader(bp.Raw())
		var got []wSig
		it := rd.NodesIterator()
		for it.HasNext() {
			got = append(got, dSig(it.NextNodes()))
		}
		p := fmt.Sprintf("(WBP %s %s %s)", ref.coq(), wsigs(nodes), cBytes(rd.RandomSeedSignature()))
		g := fmt.Sprintf("(WBP %s %s %s)", dRef(rd.BlockRef()).coq(), wsigs(got), cBytes(rd.RandomSeedSignature()))
		if !bytes.Equal(rd.BlockRef().Raw(), bRef(ref).Build().Raw()) {
			rep.finding("C20", "block-proof-ref-bytes-differ-from-signed-bytes", "the proof's block ref is not byte-identical to the COMMIT header the members signed", p)
		}
		same := len(got) == len(nodes)
		for j := 0; same && j < len(nodes); j++ {
			same = bytes.Equal(got[j].Id, nodes[j].Id) && bytes.Equal(got[j].Sig, nodes[j].Sig)
		}
		if !same {
			rep.finding("C20", "block-proof-does-not-carry-every-commit-signature", fmt.Sprintf("block proof built from %d COMMITs holds %d nodes (or other ids / signatures, or another order)", len(nodes), len(got)), p)
		}
		bcases = append(bcases, fmt.Sprintf("(%s, %s, %s)", p, cBytes(bp.Raw()), g))
		rep.count("built:blockproof")
	}
	// block proofs from COMMITs with genuine random-seed shares and member ids of different lengths: the proof's
	// random-seed signature is the aggregate of exactly those shares (here: the master signature over the seed)
	for i := 0; i < n/10+5; i++ {
		h := primitives.BlockHeight(1 + r.Intn(50))
		seed := []byte(fmt.Sprintf("seed-%d", r.Intn(1000)))
		ref := wRef{Inst: 7, Type: 3, Height: uint64(h), View: uint64(r.Intn(3)), Hash: rBytes(r, rep)}
		k := 2 + r.Intn(5)
		var cms []*interfaces.CommitMessage
		for j := 0; j < k; j++ {
			id := primitives.MemberId(fmt.Sprintf("member-%d-%s", j, strings.Repeat("x", r.Intn(3)*j)))
			if j == 0 {
				id = primitives.MemberId("m0")
			}
			c := (&protocol.CommitContentBuilder{SignedHeader: bRef(ref), Sender: &protocol.SenderSignatureBuilder{MemberId: id, Signature: kr.signConsensus(id, h, bRef(ref).Build().Raw())},
				Share: kr.signSeed(id, h, seed)}).Build()
			cms = append(cms, interfaces.NewCommitMessage(c))
		}
		bp := blockproof.GenerateLeanHelixBlockProof(&keyManager{kr, idBytes(1)}, cms)
		got := protocol.BlockProofReader(bp.Raw()).RandomSeedSignature()
		if !bytes.Equal(got, kr.masterSeed(h, seed)) {
			rep.finding("C20", "block-proof-seed-is-not-the-aggregate-of-the-shares", fmt.Sprintf("block proof generated from %d COMMITs with genuine shares (member ids of different lengths): its random-seed signature is not the aggregate of those shares", k), fmt.Sprintf("ids of lengths 2..%d", 9+2*k))
		}
		rep.count("built:blockproof-with-genuine-shares")
	}
	rep.Evaluations = len(cases) + len(dcases) + len(bcases)
	rep.DistinctNontr = len(cases) + len(bcases)
	rep.Rule = "messages of all five kinds and block proofs with instance/height/view across the 64-bit range, ids/hashes/signatures/shares of length 0..257 with arbitrary bytes, 0..20 votes and prepare senders, with and without proofs; each built through the repo's builders and CreateConsensusRawMessage and read back through ToConsensusMessage; half as many again built through services/messagesfactory (votes from PreparedMessages of other members' factories, a sixth with different hashes in the two halves, a sixth with an empty PREPREPARE hash; NEW_VIEWs from such votes), compared with the message the inputs describe and every signature re-verified over the re-read bytes; plus two mutated copies (truncation, bit flip, trailing bytes, size word, random) of each, compared when the Go reader does not panic; non-trivial = built message or block proof (distinct with overwhelming probability: random field values)"
	cf := newCaseFile("From LH Require Import Prims Wire WireLH Msg Corr.\nOpen Scope N_scope.")
	cf.addShards("wc", "wcase", "w_ok", cases, 250)
	cf.addShards("wd", "wdcase", "wd_ok", dcases, 500)
	cf.addShards("wb", "wbcase", "wb_ok", bcases, 250)
	p := filepath.Join(cfg.outDir, "cases_wire.v")
	if err := cf.write(p); err != nil {
		return err
	}
	rep.CaseFiles = []string{p}
	return rep.write(cfg.outDir)
}
