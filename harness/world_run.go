package main

import (
	"context"
	"fmt"
	"math/rand"
	"strings"

	"github.com/orbs-network/lean-helix-go/services/interfaces"
	"github.com/orbs-network/lean-helix-go/spec/types/go/protocol"
)

// ---- the scheduler ----
func (w *world) deliverable() []int {
	var idx []int
	for i, p := range w.pool {
		if w.held[p.to] {
			continue
		}
		if w.slowCommits && p.msg.Kind == "C" && p.msg.view() <= w.slowUntilView {
			continue // COMMITs of the early views are slow: nodes become prepared and then have to change view
		}
		idx = append(idx, i)
	}
	return idx
}

func (w *world) run() {
	r := w.r
	for _, n := range w.honest {
		if r.Intn(10) == 0 {
			continue // late starter
		}
		w.sync(n, nil)
	}
	// chaos level of this world: how often the adversary / the clock interferes with plain delivery
	chaos := []int{4, 12, 30, 55}[r.Intn(4)]
	if r.Intn(3) == 0 {
		w.slowCommits, w.slowUntilView = true, uint64(r.Intn(3))
		w.rep.count("world:slow-commits")
	}
	w.rep.count(fmt.Sprintf("world:chaos-%d%%", chaos))
	steps := 60 + r.Intn(260)
	w.splitSyncs = r.Intn(2) == 0
	defer func() { // whatever the main loop accepted reaches the worker in the end
		w.splitSyncs = false
		for _, n := range w.honest {
			w.flushSync(n)
		}
	}()
	for s := 0; s < steps; s++ {
		for _, n := range w.honest { // a block waiting in a worker's channel is taken some events later
			if w.pendingSync[n.id] != nil && r.Intn(3) == 0 {
				w.flushSync(n)
			}
		}
		// hold / release a node's inbox (a slow or partitioned node whose traffic arrives later, in a burst)
		if r.Intn(60) == 0 {
			n := w.honest[r.Intn(len(w.honest))]
			w.held[n.id] = !w.held[n.id]
			if w.held[n.id] {
				w.rep.count("sched:hold-node")
			}
		}
		if r.Intn(100) >= chaos {
			idx := w.deliverable()
			if len(idx) == 0 {
				if len(w.pool) > 0 && r.Intn(3) == 0 { // everything pending is held: release
					for k := range w.held {
						w.held[k] = false
					}
					continue
				}
				w.timelyElections()
				continue
			}
			i := idx[0]
			if r.Intn(5) == 0 {
				i = idx[r.Intn(len(idx))]
			}
			p := w.pool[i]
			w.pool = append(w.pool[:i], w.pool[i+1:]...)
			w.deliverG(w.byId[p.to], p.msg, p.raw, p.genuine)
			continue
		}
		k := r.Intn(100)
		switch {
		case k < 20:
			idx := w.deliverable()
			if len(idx) > 0 {
				i := idx[r.Intn(len(idx))]
				p := w.pool[i]
				w.rep.count("sched:duplicate-delivery")
				w.deliverG(w.byId[p.to], p.msg, p.raw, p.genuine) // stays in the pool: delivered again later
			}
		case k < 38:
			w.someElection()
		case k < 46:
			if len(w.pool) > 0 {
				i := r.Intn(len(w.pool))
				w.pool = append(w.pool[:i], w.pool[i+1:]...)
				w.rep.count("sched:drop")
			}
		case k < 48:
			w.someSync()
		case k < 50:
			w.garbage()
		case k < 54:
			w.burstNewestFirst()
		case k < 76:
			w.mutatedReplay()
		default:
			if len(w.byz) > 0 {
				w.byzAction()
			} else {
				w.mutatedReplay()
			}
		}
	}
	// a calm tail: release everybody, deliver what is pending in order, let timers fire when nothing is pending
	for k := range w.held {
		w.held[k] = false
	}
	w.slowCommits = false
	for t := 0; t < 150; t++ {
		if len(w.pool) == 0 {
			if t > 100 {
				break
			}
			w.timelyElections()
			continue
		}
		p := w.pool[0]
		w.pool = w.pool[1:]
		w.deliverG(w.byId[p.to], p.msg, p.raw, p.genuine)
	}
}

// timelyElections: nothing is in flight, so the next thing to happen is a timeout; lower views time out
// first (exponential timeouts), so the correct nodes with the minimal (height, view) fire together.
func (w *world) timelyElections() {
	var minH, minV uint64
	first := true
	for _, n := range w.honest {
		st := n.vn.State()
		h, v := uint64(st.Height()), uint64(st.View())
		if h == 0 {
			continue
		}
		if first || h < minH || (h == minH && v < minV) {
			minH, minV, first = h, v, false
		}
	}
	if first {
		w.someElection()
		return
	}
	for _, n := range w.honest {
		st := n.vn.State()
		if uint64(st.Height()) == minH && uint64(st.View()) == minV {
			w.election(n, minH, minV)
		}
	}
}

// burstNewestFirst: a node that was cut off gets its backlog in a burst, the newest height first (so the
// messages of the next height sit in its future cache when the current height's commit arrives)
func (w *world) burstNewestFirst() {
	n := w.honest[w.r.Intn(len(w.honest))]
	var mine []pend
	var rest []pend
	for _, p := range w.pool {
		if p.to == n.id {
			mine = append(mine, p)
		} else {
			rest = append(rest, p)
		}
	}
	if len(mine) < 4 {
		return
	}
	w.rep.count("sched:burst-newest-height-first")
	w.held[n.id] = false
	w.pool = rest
	cur := uint64(n.vn.State().Height())
	// first everything for the height after the current one, then the current height, then the rest
	for _, pass := range []int{1, 0, 2} {
		for _, p := range mine {
			h := p.msg.height()
			cls := 2
			if h == cur+1 {
				cls = 1
			} else if h == cur {
				cls = 0
			}
			if cls == pass {
				w.deliverG(n, p.msg, p.raw, p.genuine)
			}
		}
	}
}

func (w *world) someElectionExact() {
	n := w.honest[w.r.Intn(len(w.honest))]
	st := n.vn.State()
	w.election(n, uint64(st.Height()), uint64(st.View()))
}

func (w *world) someElection() {
	n := w.honest[w.r.Intn(len(w.honest))]
	st := n.vn.State()
	h, v := uint64(st.Height()), uint64(st.View())
	switch w.r.Intn(12) {
	case 0:
		if v > 0 {
			v-- // stale trigger
		}
	case 1:
		if h > 1 {
			h-- // trigger of a previous height
		}
	}
	// (a trigger for a view the node has not reached cannot occur: triggers come from the node's own timer,
	// which is only ever armed for the node's current height and view)
	w.election(n, h, v)
}

func (w *world) someSync() {
	n := w.honest[w.r.Intn(len(w.honest))]
	// sync to a committed block (any height known), sometimes an old one, sometimes a fabricated newer one
	var hs []uint64
	for h := range w.chain {
		hs = append(hs, h)
	}
	sortU(hs) // map order is random: keep the engine a function of its seed
	if len(hs) == 0 || w.r.Intn(6) == 0 {
		cur := uint64(n.vn.State().Height())
		b := &aBlock{Height: cur + uint64(w.r.Intn(3)), Id: 3000000 + w.byzBlocks}
		w.byzBlocks++
		if b.Height == 0 {
			w.sync(n, nil)
			return
		}
		w.sync(n, b)
		return
	}
	h := hs[w.r.Intn(len(hs))]
	w.sync(n, w.chain[h])
}

// garbage: content bytes that do not hold a readable message (C12): truncations and size-word manglings of real
// traffic, random bytes, the witnesses of finding F7. If the repo's readers happen to read the bytes as a whole
// message it is delivered as that message; otherwise the model's event is EGarbage (no effect at all).
func (w *world) garbage() {
	n := w.honest[w.r.Intn(len(w.honest))]
	var b []byte
	switch w.r.Intn(6) {
	case 0:
		b = []byte{0, 0, 0, 0, 0xFC, 0xFF, 0xFF, 0xFF}
	case 1:
		b = []byte{}
	case 2:
		b = make([]byte, w.r.Intn(40))
		w.r.Read(b)
	default:
		if len(w.pool) == 0 {
			return
		}
		src := w.pool[w.r.Intn(len(w.pool))].raw.Content
		b = append([]byte{}, src...)
		if w.r.Intn(2) == 0 {
			b = b[:w.r.Intn(len(b)+1)]
		} else if len(b) >= 8 {
			o := 4 * w.r.Intn(len(b)/4)
			v := []uint32{uint32(len(b)), 1 << 31, ^uint32(0) - 3, ^uint32(0)}[w.r.Intn(4)]
			b[o], b[o+1], b[o+2], b[o+3] = byte(v), byte(v>>8), byte(v>>16), byte(v>>24)
		}
	}
	raw := &interfaces.ConsensusRawMessage{Content: b}
	var m *aMsg
	func() {
		defer func() { recover() }()
		m = w.codec.decode(raw)
	}()
	if m != nil {
		w.rep.count("garbage:readable-after-all")
		w.history = append(w.history, m)
		w.deliver(n, m, raw)
		return
	}
	w.rep.count("event:garbage")
	n.apply("EGarbage", fmt.Sprintf("garbage bytes %x", b), evInfo{kind: "garbage"}, func() { n.vn.Deliver(raw) })
}

// ---- mutation of real traffic, one field at a time (DESIGN Appendix D) ----
func (w *world) mutatedReplay() {
	if len(w.history) == 0 {
		return
	}
	src := w.history[w.r.Intn(len(w.history))]
	if w.r.Intn(3) != 0 && len(w.history) > 6 {
		src = w.history[len(w.history)-1-w.r.Intn(6)] // recent traffic is more relevant
	}
	m := src.clone()
	n := w.honest[w.r.Intn(len(w.honest))]
	if w.r.Intn(3) == 0 {
		// plain replay to somebody else
		w.inject(n, m, "replay")
		return
	}
	op := w.mutate(m)
	if strings.HasSuffix(op, "instance") || strings.HasSuffix(op, "sender") || strings.HasSuffix(op, "sigflag") || strings.HasSuffix(op, "type") {
		// also try the filters on the cache path: prefer a recipient that is still below the message's height
		for _, cand := range w.honest {
			if uint64(cand.vn.State().Height()) < m.height() && w.r.Intn(2) == 0 {
				n = cand
				w.rep.count("inject:mutated-message-for-a-future-height")
				break
			}
		}
	}
	w.inject(n, m, "mutate-"+op)
}

func (w *world) otherVal(x uint64, small bool) uint64 {
	switch w.r.Intn(7) {
	case 0:
		return x + 1
	case 1:
		if x > 0 {
			return x - 1
		}
		return x + 2
	case 2:
		return uint64(w.r.Intn(4))
	case 3:
		if small {
			return uint64(w.r.Intn(w.n + 2))
		}
		return 1 << 63
	case 4:
		if small {
			return uint64(w.n)
		}
		return ^uint64(0)
	case 5:
		return x + uint64(w.n)
	}
	return uint64(w.r.Intn(8))
}

func (w *world) mutRef(r *aRef) string {
	switch w.r.Intn(5) {
	case 0:
		r.Type = uint64(1 + w.r.Intn(5))
		return "type"
	case 1:
		r.Inst = w.otherVal(r.Inst, false)
		return "instance"
	case 2:
		r.Height = w.otherVal(r.Height, false)
		return "height"
	case 3:
		r.View = w.otherVal(r.View, false)
		return "view"
	}
	r.Hash = w.someHash(r.Hash)
	return "hash"
}
func (w *world) someHash(x uint64) uint64 {
	var ids []uint64
	for id := range w.codec.blocks {
		if id != x {
			ids = append(ids, id)
		}
	}
	if len(ids) == 0 || w.r.Intn(5) == 0 {
		if w.r.Intn(2) == 0 {
			return 0
		}
		w.byzBlocks++
		return 4000000 + w.byzBlocks
	}
	// deterministic choice: sort then pick
	sortU(ids)
	return ids[w.r.Intn(len(ids))]
}
func (w *world) mutSig(s *aSig) string {
	if w.r.Intn(2) == 0 {
		s.Ok = !s.Ok
		return "sigflag"
	}
	s.Id = w.otherVal(s.Id, true)
	return "sender"
}
func (w *world) mutProof(p *aProof) string {
	switch w.r.Intn(6) {
	case 0:
		return "proof.ppref." + w.mutRef(&p.PPRef)
	case 1:
		return "proof.pref." + w.mutRef(&p.PRef)
	case 2:
		return "proof.ppsnd." + w.mutSig(&p.PPSnd)
	case 3:
		if len(p.PSnds) > 0 {
			return "proof.psnd." + w.mutSig(&p.PSnds[w.r.Intn(len(p.PSnds))])
		}
	case 4:
		if len(p.PSnds) > 0 {
			i := w.r.Intn(len(p.PSnds))
			p.PSnds = append(p.PSnds[:i], p.PSnds[i+1:]...)
			return "proof.drop-preparer"
		}
	case 5:
		if len(p.PSnds) > 0 {
			p.PSnds = append(p.PSnds, p.PSnds[w.r.Intn(len(p.PSnds))])
			return "proof.dup-preparer"
		}
	}
	if w.r.Intn(3) == 0 && p.PRef.Inst == worldInst {
		p.PRef.Inst = worldInst + 1 // the preparers' signatures of the sibling instance: genuine, but not for this instance
		return "proof.pref.sibling-instance"
	}
	// both refs together (a consistent proof for another view/hash)
	nv := w.otherVal(p.PPRef.View, false)
	p.PPRef.View, p.PRef.View = nv, nv
	return "proof.both-views"
}
func (w *world) mutVote(v *aVote) string {
	switch w.r.Intn(8) {
	case 0:
		v.Type = uint64(1 + w.r.Intn(5))
		return "vote.type"
	case 1:
		v.Inst = w.otherVal(v.Inst, false)
		return "vote.instance"
	case 2:
		v.Height = w.otherVal(v.Height, false)
		return "vote.height"
	case 3:
		v.View = w.otherVal(v.View, false)
		return "vote.view"
	case 4:
		return "vote." + w.mutSig(&v.Snd)
	case 5:
		if v.Proof != nil {
			v.Proof = nil
			return "vote.drop-proof"
		}
		if p := w.someProof(); p != nil {
			v.Proof = p
			return "vote.add-proof"
		}
	}
	if v.Proof != nil {
		return "vote." + w.mutProof(v.Proof)
	}
	v.View = w.otherVal(v.View, false)
	return "vote.view"
}
// someProofAt: a prepared proof seen on the network for height h with a view below `below`
func (w *world) someProofAt(h, below uint64) *aProof {
	var ps []*aProof
	add := func(p *aProof) {
		if p != nil && p.PPRef.Height == h && p.PPRef.View < below && p.PPSnd.Ok {
			ps = append(ps, p)
		}
	}
	for _, m := range w.history {
		if m.Kind == "VC" {
			add(m.Vote.Proof)
		}
		for _, v := range m.Votes {
			add(v.Proof)
		}
	}
	if len(ps) == 0 {
		return nil
	}
	p := *ps[w.r.Intn(len(ps))]
	p.PSnds = append([]aSig{}, p.PSnds...)
	return &p
}

func (w *world) someProof() *aProof {
	var ps []*aProof
	for _, m := range w.history {
		if m.Kind == "VC" && m.Vote.Proof != nil {
			ps = append(ps, m.Vote.Proof)
		}
		for _, v := range m.Votes {
			if v.Proof != nil {
				ps = append(ps, v.Proof)
			}
		}
	}
	if len(ps) == 0 {
		return nil
	}
	p := *ps[w.r.Intn(len(ps))]
	p.PSnds = append([]aSig{}, p.PSnds...)
	return &p
}
func (w *world) mutBlock(m *aMsg) string {
	switch w.r.Intn(4) {
	case 0:
		m.Block = nil
		return "block.nil"
	case 1:
		w.byzBlocks++
		m.Block = &aBlock{Height: m.height(), Id: 2000000 + w.byzBlocks}
		return "block.other"
	case 2:
		if m.Block != nil {
			b := *m.Block
			b.Height = w.otherVal(b.Height, false)
			m.Block = &b
			return "block.height"
		}
	}
	if m.Block != nil {
		// a block some member's validator rejects. It is another block (another id, hence another hash): two blocks with one
		// hash that validators judge differently would be a collision of the consumer's hash, which the properties exclude
		w.byzBlocks++
		b := aBlock{Height: m.Block.Height, Id: 2000000 + w.byzBlocks, Bad: []uint64{uint64(w.r.Intn(w.n))}}
		m.Block = &b
		return "block.rejected-by-one"
	}
	w.byzBlocks++
	m.Block = &aBlock{Height: m.height(), Id: 2000000 + w.byzBlocks}
	return "block.other"
}

func (w *world) mutate(m *aMsg) string {
	switch m.Kind {
	case "PP":
		switch w.r.Intn(4) {
		case 0:
			return "PP." + w.mutSig(&m.Snd)
		case 1:
			return "PP." + w.mutBlock(m)
		}
		return "PP." + w.mutRef(&m.Ref)
	case "P":
		if w.r.Intn(3) == 0 {
			return "P." + w.mutSig(&m.Snd)
		}
		return "P." + w.mutRef(&m.Ref)
	case "C":
		switch w.r.Intn(4) {
		case 0:
			return "C." + w.mutSig(&m.Snd)
		case 1:
			m.ShareOk = !m.ShareOk
			return "C.share"
		}
		return "C." + w.mutRef(&m.Ref)
	case "VC":
		if w.r.Intn(5) == 0 {
			return "VC." + w.mutBlock(m)
		}
		return "VC." + w.mutVote(m.Vote)
	case "NV":
		switch w.r.Intn(12) {
		case 0:
			m.NVType = uint64(1 + w.r.Intn(5))
			return "NV.type"
		case 1:
			m.NVInst = w.otherVal(m.NVInst, false)
			return "NV.instance"
		case 2:
			m.NVHeight = w.otherVal(m.NVHeight, false)
			return "NV.height"
		case 3:
			m.NVView = w.otherVal(m.NVView, false)
			return "NV.view"
		case 4:
			return "NV." + w.mutSig(&m.Snd)
		case 5:
			return "NV.pp." + w.mutRef(&m.Ref)
		case 6:
			return "NV.pp." + w.mutSig(&m.PPSnd)
		case 7:
			return "NV." + w.mutBlock(m)
		case 8:
			if len(m.Votes) > 0 {
				i := w.r.Intn(len(m.Votes))
				m.Votes = append(m.Votes[:i], m.Votes[i+1:]...)
				return "NV.drop-vote"
			}
		case 9:
			if len(m.Votes) > 0 {
				m.Votes = append(m.Votes, cloneVote(m.Votes[w.r.Intn(len(m.Votes))]))
				return "NV.dup-vote"
			}
		}
		if len(m.Votes) > 0 {
			return "NV." + w.mutVote(&m.Votes[w.r.Intn(len(m.Votes))])
		}
		m.NVView = w.otherVal(m.NVView, false)
		return "NV.view"
	}
	return "none"
}

func sortU(x []uint64) {
	for i := 1; i < len(x); i++ {
		for j := i; j > 0 && x[j] < x[j-1]; j-- {
			x[j], x[j-1] = x[j-1], x[j]
		}
	}
}

// ---- Byzantine strategies (signatures: Byzantine keys, plus honest signatures found in the history) ----
func (w *world) pickByz() uint64 {
	ks := keysOf(w.byz)
	return ks[w.r.Intn(len(ks))]
}
func (w *world) byzBlock(h uint64) *aBlock {
	w.byzBlocks++
	b := &aBlock{Height: h, Id: 2000000 + w.byzBlocks}
	if w.r.Intn(7) == 0 { // a block of another height, proposed for this one
		b.Height = h + 1 + uint64(w.r.Intn(6))
	}
	if w.r.Intn(3) == 0 {
		b.Bad = []uint64{w.honest[w.r.Intn(len(w.honest))].id}
	}
	if w.r.Intn(8) == 0 {
		for _, n := range w.honest {
			b.Bad = append(b.Bad, n.id)
		}
		sortU(b.Bad)
		// dedupe
		var d []uint64
		for i, x := range b.Bad {
			if i == 0 || x != b.Bad[i-1] {
				d = append(d, x)
			}
		}
		b.Bad = d
	}
	return b
}

func (w *world) byzAction() {
	r := w.r
	target := w.honest[r.Intn(len(w.honest))]
	st := target.vn.State()
	h, v := uint64(st.Height()), uint64(st.View())
	if h == 0 {
		return
	}
	b := w.pickByz()
	ref := func(ty, view, hash uint64) aRef { return aRef{ty, worldInst, h, view, hash} }
	pick := r.Intn(8)
	if w.kf1 && v > 0 && w.byz[w.leaderAt(h, v)] && r.Intn(2) == 0 {
		pick = 0
	}
	switch pick {
	case 0: // equivocating / plain proposal by a Byzantine leader of the target's current view
		ld := w.leaderAt(h, v)
		if !w.byz[ld] {
			return
		}
		if v > 0 && !w.kf1 {
			return // standalone PREPREPARE in a view above 0 is the known-finding stream (KF-1)
		}
		blk := w.byzBlock(h)
		for _, n := range w.honest {
			if r.Intn(3) == 0 {
				blk = w.byzBlock(h) // a different block for this recipient
			}
			if r.Intn(4) != 0 {
				w.inject(n, &aMsg{Kind: "PP", Ref: ref(1, v, blk.Id), Snd: aSig{ld, true}, Block: blk}, "byz-proposal")
				if r.Intn(3) == 0 { // and a second, conflicting proposal for the same view to the same node
					b2 := w.byzBlock(h)
					b2.Bad = nil
					w.inject(n, &aMsg{Kind: "PP", Ref: ref(1, v, b2.Id), Snd: aSig{ld, true}, Block: b2}, "byz-second-proposal-same-view")
				}
			}
		}
	case 1: // Byzantine PREPARE / COMMIT supporting any hash seen at this height
		x := w.someHash(0)
		kind := "P"
		ty := uint64(2)
		if r.Intn(2) == 0 {
			kind, ty = "C", 3
		}
		vv := v
		if r.Intn(4) == 0 {
			vv = w.otherVal(v, false)
		}
		w.inject(target, &aMsg{Kind: kind, Ref: ref(ty, vv, x), Snd: aSig{b, true}, ShareOk: r.Intn(5) != 0}, "byz-"+kind)
	case 2: // Byzantine VIEW_CHANGE to the honest leader of the next view(s)
		nv := v + 1 + uint64(r.Intn(2))
		// prefer a view for which an honest leader is collecting votes right now
		for k := len(w.history) - 1; k >= 0 && k >= len(w.history)-40; k-- {
			hm := w.history[k]
			if hm.Kind == "VC" && !w.byz[hm.Vote.Snd.Id] && hm.Vote.Snd.Ok {
				if _, honestLeader := w.byId[w.leaderAt(hm.Vote.Height, hm.Vote.View)]; honestLeader && r.Intn(3) != 0 {
					h, nv = hm.Vote.Height, hm.Vote.View
					if nv > 0 {
						v = nv - 1
					}
					break
				}
			}
		}
		ld := w.leaderAt(h, nv)
		n, ok := w.byId[ld]
		if !ok {
			return
		}
		vt := aVote{5, worldInst, h, nv, nil, aSig{b, true}}
		var blk *aBlock
		switch r.Intn(4) {
		case 0, 2:
			p := w.someProofAt(h, nv)
			if p == nil {
				p = w.someProof()
			}
			if p != nil {
				vt.Proof = p
				blk = w.blockOfHash(p.PPRef.Hash)
				if r.Intn(3) == 0 {
					blk = nil // proof without block
					w.rep.count("byz:VC-proof-without-block")
					// the adversary also delays the correct votes that carry the proof together with its block
					var keep []pend
					for _, pd := range w.pool {
						if pd.to == ld && pd.msg.Kind == "VC" && pd.msg.Vote.View == nv && pd.msg.Vote.Proof != nil {
							continue
						}
						keep = append(keep, pd)
					}
					w.pool = keep
				}
			}
		case 1: // forged proof: only Byzantine signatures are valid
			x := w.someHash(0)
			p := &aProof{PPRef: ref(1, v, x), PPSnd: aSig{w.leaderAt(h, v), true}, PRef: ref(2, v, x)}
			for i := 0; i < w.n; i++ {
				if uint64(i) != w.leaderAt(h, v) {
					p.PSnds = append(p.PSnds, aSig{uint64(i), true})
				}
			}
			vt.Proof = p
			blk = w.blockOfHash(x)
		}
		w.inject(n, &aMsg{Kind: "VC", Vote: &vt, Block: blk}, "byz-VC")
	case 3, 4: // NEW_VIEW by a Byzantine leader of some view above the target's
		nv := v + 1 + uint64(r.Intn(3))
		ld := w.leaderAt(h, nv)
		if !w.byz[ld] {
			return
		}
		// votes: honest votes for (h, nv) seen in the history (they were addressed to this Byzantine leader) + Byzantine votes
		var votes []aVote
		seen := map[uint64]bool{}
		for _, m := range w.history {
			if m.Kind == "VC" && m.Vote.Height == h && m.Vote.View == nv && !seen[m.Vote.Snd.Id] && m.Vote.Snd.Ok {
				votes = append(votes, cloneVote(*m.Vote))
				seen[m.Vote.Snd.Id] = true
			}
		}
		for _, bz := range keysOf(w.byz) {
			if !seen[bz] {
				vt := aVote{5, worldInst, h, nv, nil, aSig{bz, true}}
				if r.Intn(2) == 0 {
					vt.Proof = w.someProofAt(h, nv) // a Byzantine vote may carry a replayed genuine proof
				}
				votes = append(votes, vt)
				seen[bz] = true
			}
		}
		variant := r.Intn(6)
		if variant == 0 { // fabricate votes of honest members (signatures cannot be valid)
			for _, n := range w.honest {
				if !seen[n.id] {
					votes = append(votes, aVote{5, worldInst, h, nv, nil, aSig{n.id, true}})
					seen[n.id] = true
				}
			}
		}
		if variant == 1 && len(votes) > 1 { // hide the votes that carry proofs
			var f []aVote
			for _, vt := range votes {
				if vt.Proof == nil {
					f = append(f, vt)
				}
			}
			votes = f
		}
		// proposal: the highest proof's block (proper), or something else
		var best *aProof
		for i := range votes {
			if p := votes[i].Proof; p != nil && (best == nil || p.PPRef.View > best.PPRef.View) {
				best = p
			}
		}
		var blk *aBlock
		var hash uint64
		if best != nil && variant != 2 {
			blk = w.blockOfHash(best.PPRef.Hash)
			hash = best.PPRef.Hash
			if variant == 3 { // locked block under a PREPREPARE over another hash
				hash = w.someHash(hash)
				w.rep.count("byz:NV-locked-block-other-hash")
			}
		} else {
			blk = w.byzBlock(h)
			hash = blk.Id
		}
		if w.nilOK && r.Intn(2) == 0 {
			blk = nil
			w.rep.count("byz:NV-without-block")
		}
		m := &aMsg{Kind: "NV", NVType: 4, NVInst: worldInst, NVHeight: h, NVView: nv, Votes: votes, Snd: aSig{ld, true}, Ref: ref(1, nv, hash), PPSnd: aSig{ld, true}, Block: blk}
		for _, n := range w.honest {
			if r.Intn(4) != 0 {
				mm := m.clone()
				if variant == 4 && !seen[n.id] {
					// a vote fabricated in the name of the recipient itself (it never signed it)
					mm.Votes = append(mm.Votes, aVote{5, worldInst, h, nv, nil, aSig{n.id, true}})
					w.rep.count("byz:NV-forged-vote-in-recipients-name")
				}
				w.inject(n, mm, "byz-NV")
			}
		}
	case 5: // type confusion: an honest PREPARE signature wrapped as COMMIT (and vice versa)
		for tries := 0; tries < 5 && len(w.history) > 0; tries++ {
			src := w.history[r.Intn(len(w.history))]
			if src.Kind == "P" || src.Kind == "C" {
				m := src.clone()
				if m.Kind == "P" {
					m.Kind, m.ShareOk = "C", true
				} else {
					m.Kind = "P"
				}
				w.inject(target, m, "byz-type-confusion")
				return
			}
		}
	case 7: // a Byzantine member's PREPARE / COMMIT signed over a non-canonical encoding of the header (trailing bytes)
		kind, ty := "P", uint64(2)
		if r.Intn(2) == 0 {
			kind, ty = "C", 3
		}
		x := w.someHash(0)
		for _, hm := range w.history { // prefer the hash being decided right now
			if (hm.Kind == "PP" || hm.Kind == "NV") && hm.Ref.Height == h && hm.Ref.View == v {
				x = hm.Ref.Hash
			}
		}
		if w.leaderAt(h, v) == b {
			return
		}
		m := &aMsg{Kind: kind, Ref: ref(ty, v, x), Snd: aSig{b, true}, ShareOk: true}
		raw := w.codec.encodeNonCanonical(m)
		back := w.codec.decode(raw)
		if back == nil {
			return
		}
		for _, n := range w.honest {
			w.rep.count("inject:byz-noncanonical-" + kind)
			w.history = append(w.history, back)
			w.deliver(n, back, raw)
		}
	case 6: // outsider with a valid key
		out := uint64(w.n + r.Intn(2))
		w.byz[out] = true // its key is under adversary control
		kind, ty := "P", uint64(2)
		switch r.Intn(3) {
		case 0:
			kind, ty = "C", 3
		case 1: // an outsider in the leader's role: a proposal for a view whose leader sits at position 0, 1 or where the target is
			blk := w.byzBlock(h)
			pv := []uint64{0, uint64(w.n), uint64(w.n) + 1, v}[r.Intn(4)]
			w.inject(target, &aMsg{Kind: "PP", Ref: ref(1, pv, blk.Id), Snd: aSig{out, true}, Block: blk}, "outsider-PP")
			delete(w.byz, out)
			return
		}
		w.inject(target, &aMsg{Kind: kind, Ref: ref(ty, v, w.someHash(0)), Snd: aSig{out, true}, ShareOk: true}, "outsider-"+kind)
		delete(w.byz, out)
	}
}

func (w *world) blockOfHash(x uint64) *aBlock {
	if b, ok := w.codec.blocks[x]; ok {
		return absBlock(b)
	}
	return nil
}

// ---- monitors (judge the implementation's own behaviour against the property statements) ----
func (w *world) onCommitMonitors(n *simNode, b *aBlock, ref aRef, signers []aSig, proof []byte) {
	// C01 agreement
	if prev, ok := w.chain[b.Height]; ok {
		if prev.Id != b.Id {
			sig := "fork"
			if w.kf1Adopted {
				sig = "fork-after-standalone-preprepare"
			}
			w.rep.finding("C01", sig, fmt.Sprintf("height %d: node %d commits block %d, another correct node committed block %d", b.Height, n.id, b.Id, prev.Id), w.traceInput())
		}
	} else {
		w.chain[b.Height] = b
	}
	// C04 external validity
	if b.Height != ref.Height || b.Id != ref.Hash {
		w.rep.finding("C04", "committed-block-does-not-match-certified-hash", fmt.Sprintf("node %d height %d block %d(h=%d) ref hash %d", n.id, ref.Height, b.Id, b.Height, ref.Hash), w.traceInput())
	}
	_, honestProposed := w.proposedBy[b.Id]
	if len(w.validatedBy[b.Id]) == 0 && !honestProposed {
		w.rep.finding("C04", "committed-block-never-validated-by-a-correct-node", fmt.Sprintf("node %d height %d block %d", n.id, b.Height, b.Id), w.traceInput())
	}
	// C03: every other correct node accepts the pair in strict mode
	for _, o := range w.honest {
		if o == n {
			continue
		}
		blk := w.codec.mkBlock(b)
		err := o.vn.ValidateBlockConsensus(context.Background(), blk, proof, nil, w.codec.syncProof(b.Height-1), false)
		if err != nil {
			w.rep.finding("C03", "committed-proof-rejected-by-peer", fmt.Sprintf("node %d committed height %d block %d; node %d rejects the pair: %v", n.id, b.Height, b.Id, o.id, err), w.traceInput())
			break
		}
	}
	// C13: strictly increasing commit heights
	if k := len(n.commits); k >= 2 && n.commits[k-2].height >= n.commits[k-1].height {
		w.rep.finding("C13", "commit-heights-not-increasing", fmt.Sprintf("node %d committed heights %d then %d", n.id, n.commits[k-2].height, n.commits[k-1].height), w.traceInput())
	}
}

func (w *world) sendMonitors(n *simNode, m *aMsg, raw interface{}) {
	// C10: no equivocation, phase order (per node send stream)
	type key struct {
		kind string
		h, v uint64
	}
	hashes := map[key]uint64{}
	lastVC := map[uint64]uint64{}
	haveVC := map[uint64]bool{}
	for _, s := range n.sentLog {
		switch s.Kind {
		case "PP", "P", "C":
			k := key{s.Kind, s.Ref.Height, s.Ref.View}
			if x, ok := hashes[k]; ok && x != s.Ref.Hash {
				w.rep.finding("C10", "equivocation-"+s.Kind, fmt.Sprintf("node %d signed %s for (h=%d,v=%d) over hashes %d and %d", n.id, s.Kind, s.Ref.Height, s.Ref.View, x, s.Ref.Hash), w.traceInput())
			}
			hashes[k] = s.Ref.Hash
		case "NV":
			k := key{"PP", s.Ref.Height, s.Ref.View}
			if x, ok := hashes[k]; ok && x != s.Ref.Hash {
				w.rep.finding("C10", "equivocation-PP", fmt.Sprintf("node %d proposed two hashes for (h=%d,v=%d)", n.id, s.Ref.Height, s.Ref.View), w.traceInput())
			}
			hashes[k] = s.Ref.Hash
		case "VC":
			if haveVC[s.Vote.Height] && s.Vote.View <= lastVC[s.Vote.Height] {
				w.rep.finding("C10", "view-change-views-not-increasing", fmt.Sprintf("node %d sent VIEW_CHANGE for view %d after view %d", n.id, s.Vote.View, lastVC[s.Vote.Height]), w.traceInput())
			}
			haveVC[s.Vote.Height], lastVC[s.Vote.Height] = true, s.Vote.View
		}
	}
	// every signature in an honest message verifies (C11/C20 at the wire level)
	bad := false
	chk := func(s aSig) {
		if !s.Ok {
			bad = true
		}
	}
	switch m.Kind {
	case "PP", "P", "C":
		chk(m.Snd)
	case "VC":
		chk(m.Vote.Snd)
	case "NV":
		chk(m.Snd)
		chk(m.PPSnd)
	}
	if bad {
		w.rep.finding("C20", "own-signature-does-not-verify", fmt.Sprintf("node %d sent a %s whose own signature does not verify over the sent bytes", n.id, m.Kind), w.traceInput())
	}
	if m.Kind == "P" && w.leaderAt(m.Ref.Height, m.Ref.View) == n.id && len(w.excl[n.id]) == 0 {
		w.rep.finding("C10", "prepare-sent-by-leader", fmt.Sprintf("node %d is leader of (h=%d,v=%d) and sent PREPARE", n.id, m.Ref.Height, m.Ref.View), w.traceInput())
	}
	_ = protocol.LEAN_HELIX_PREPARE
}

func (w *world) finalMonitors() {
	for _, n := range w.honest {
		// C13: new-round heights strictly increasing; (h,v) lexicographically non-decreasing, view 0 on height increase
		for i := 1; i < len(n.rounds); i++ {
			if n.rounds[i] <= n.rounds[i-1] {
				w.rep.finding("C13", "new-round-heights-not-increasing", fmt.Sprintf("node %d: new-round callback heights %d then %d", n.id, n.rounds[i-1], n.rounds[i]), w.traceInput())
				break
			}
		}
		for i := 1; i < len(n.hvs); i++ {
			a, b := n.hvs[i-1], n.hvs[i]
			if b[0] < a[0] || (b[0] == a[0] && b[1] < a[1]) {
				w.rep.finding("C13", "state-hv-decreased", fmt.Sprintf("node %d: (%d,%d) -> (%d,%d)", n.id, a[0], a[1], b[0], b[1]), w.traceInput())
				break
			}
		}
		if len(n.commits) > 0 {
			w.rep.count("node:committed")
		}
		if len(n.commits) > 1 {
			w.rep.count("node:committed-2+")
		}
	}
}

// ---- directed replay of known finding KF-1 (n=4, f=1): a Byzantine leader of view 1 forks the chain with a
// standalone PREPREPARE sent to the nodes that reached view 1 by timeout (DESIGN.md §1.1 F1) ----
func (w *world) take(to uint64, kind string, from uint64) bool { return w.takeV(to, kind, from, 0) }
func (w *world) takeV(to uint64, kind string, from uint64, view uint64) bool {
	for i, p := range w.pool {
		if p.to == to && p.msg.Kind == kind && p.msg.sender() == from && p.msg.view() == view {
			w.pool = append(w.pool[:i], w.pool[i+1:]...)
			w.deliverG(w.byId[p.to], p.msg, p.raw, p.genuine)
			return true
		}
	}
	return false
}

func kf1ForkWorld(r *rand.Rand, rep *Report, seed int64) *world {
	w := &world{r: r, rep: rep, ord: rand.New(rand.NewSource(seed ^ 0x5bd1e995)), kr: newKeyring(seed), byz: map[uint64]bool{1: true}, byId: map[uint64]*simNode{}, signed: map[string]bool{},
		proposedBy: map[uint64]uint64{}, validatedBy: map[uint64][]uint64{}, failCommit: map[uint64][]uint64{}, excl: map[uint64][]uint64{}, chain: map[uint64]*aBlock{}, held: map[uint64]bool{}}
	w.codec = newCodec(w.kr)
	w.n, w.weights, w.rot, w.kf1 = 4, []uint64{1, 1, 1, 1}, 0, true
	for _, i := range []uint64{0, 2, 3} {
		n := w.newNode(i)
		w.honest = append(w.honest, n)
		w.byId[i] = n
	}
	return w
}

// equivocationWorld / equivocationScript: the Byzantine leader of view 0 sends block A to two correct members and
// block B to a third (the victim). The two commit A with the Byzantine member's help; the victim, which stored the
// proposal for B, then receives the genuine COMMIT quorum for A: it must not deliver anything (it holds no proposal
// for A), in particular not B.
func equivocationWorld(r *rand.Rand, rep *Report, seed int64) *world {
	w := &world{r: r, rep: rep, ord: rand.New(rand.NewSource(seed ^ 0x5bd1e995)), kr: newKeyring(seed), byz: map[uint64]bool{0: true}, byId: map[uint64]*simNode{}, signed: map[string]bool{},
		proposedBy: map[uint64]uint64{}, validatedBy: map[uint64][]uint64{}, failCommit: map[uint64][]uint64{}, excl: map[uint64][]uint64{}, chain: map[uint64]*aBlock{}, held: map[uint64]bool{}}
	w.codec = newCodec(w.kr)
	w.n, w.weights, w.rot = 4, []uint64{1, 1, 1, 1}, 0
	for _, i := range []uint64{1, 2, 3} {
		n := w.newNode(i)
		w.honest = append(w.honest, n)
		w.byId[i] = n
	}
	return w
}
func (w *world) equivocationScript() {
	for _, n := range w.honest {
		w.sync(n, nil)
	}
	a, b := &aBlock{Height: 1, Id: 2999001}, &aBlock{Height: 1, Id: 2999002}
	pp := func(blk *aBlock) *aMsg {
		return &aMsg{Kind: "PP", Ref: aRef{1, worldInst, 1, 0, blk.Id}, Snd: aSig{0, true}, Block: blk}
	}
	w.inject(w.byId[3], pp(b), "byz-equivocation-minority-block")
	w.inject(w.byId[1], pp(a), "byz-equivocation")
	w.inject(w.byId[2], pp(a), "byz-equivocation")
	w.take(1, "P", 2)
	w.take(2, "P", 1)
	w.take(1, "C", 2)
	w.take(2, "C", 1)
	for _, id := range []uint64{1, 2} {
		w.inject(w.byId[id], &aMsg{Kind: "C", Ref: aRef{3, worldInst, 1, 0, a.Id}, Snd: aSig{0, true}, ShareOk: true}, "byz-C")
	}
	// the victim now gets the whole COMMIT quorum for A
	w.take(3, "C", 1)
	w.take(3, "C", 2)
	w.inject(w.byId[3], &aMsg{Kind: "C", Ref: aRef{3, worldInst, 1, 0, a.Id}, Snd: aSig{0, true}, ShareOk: true}, "byz-C")
	// ... and the PREPAREs for A as well
	w.take(3, "P", 1)
	w.take(3, "P", 2)
}

// directedWorld: four members of weight 1, rotation 0 (the leader of view v at height 1 is member v mod 4), the given
// Byzantine set; the other members are real nodes.
func directedWorld(r *rand.Rand, rep *Report, seed int64, byz ...uint64) *world {
	return directedWorldW(r, rep, seed, []uint64{1, 1, 1, 1}, byz...)
}

// directedWorldW: the same with the given weights (one member per weight)
func directedWorldW(r *rand.Rand, rep *Report, seed int64, weights []uint64, byz ...uint64) *world {
	w := &world{r: r, rep: rep, ord: rand.New(rand.NewSource(seed ^ 0x5bd1e995)), kr: newKeyring(seed), byz: map[uint64]bool{}, byId: map[uint64]*simNode{}, signed: map[string]bool{},
		proposedBy: map[uint64]uint64{}, validatedBy: map[uint64][]uint64{}, failCommit: map[uint64][]uint64{}, excl: map[uint64][]uint64{}, chain: map[uint64]*aBlock{}, held: map[uint64]bool{}}
	for _, b := range byz {
		w.byz[b] = true
	}
	w.codec = newCodec(w.kr)
	w.n, w.weights, w.rot = len(weights), weights, 0
	for i := uint64(0); i < uint64(len(weights)); i++ {
		if w.byz[i] {
			continue
		}
		n := w.newNode(i)
		w.honest = append(w.honest, n)
		w.byId[i] = n
	}
	return w
}

// hugeViewRoleScript (five members, member 2 Byzantine): it sends every correct member its PREPARE for each of the
// views 2^63 .. 2^63+4 and 2^64-5 .. 2^64-1. The leader of view v is committee[v mod 5] for these views as for any
// other (C18): exactly the PREPAREs of the views it leads are dropped, the others are stored (C08, C11). A leader
// function that goes through a signed or a narrower integer is off by 2^64 mod 5 = 1 here.
func (w *world) hugeViewRoleScript() {
	for _, n := range w.honest {
		w.sync(n, nil)
	}
	var views []uint64
	for k := uint64(0); k < 5; k++ {
		views = append(views, 1<<63+k, ^uint64(0)-k, 1<<32+k)
	}
	for _, v := range views {
		for _, n := range w.honest {
			w.inject(n, &aMsg{Kind: "P", Ref: aRef{2, worldInst, 1, v, 2999701}, Snd: aSig{2, true}}, "byz-P-huge-view")
		}
	}
}

// splitProofScript: the Byzantine leader of view 0 proposes Y, the correct members PREPARE it; it then votes for view 1
// with a "prepared proof" whose PREPREPARE half is its own signature over another block X (rejected by every correct
// validator) and whose PREPARE half carries the genuine signatures over Y. The correct leader of view 1 must not count
// that vote (C04/C08: a proof names one block).
func (w *world) splitProofScript() {
	for _, n := range w.honest {
		w.sync(n, nil)
	}
	y := &aBlock{Height: 1, Id: 2999101}
	x := &aBlock{Height: 1, Id: 2999102, Bad: []uint64{1, 2, 3}}
	for _, id := range []uint64{1, 2, 3} {
		w.inject(w.byId[id], &aMsg{Kind: "PP", Ref: aRef{1, worldInst, 1, 0, y.Id}, Snd: aSig{0, true}, Block: y}, "byz-proposal")
	}
	for _, id := range []uint64{1, 2, 3} {
		w.election(w.byId[id], 1, 0)
	}
	w.takeV(1, "VC", 2, 1)
	split := &aProof{PPRef: aRef{1, worldInst, 1, 0, x.Id}, PPSnd: aSig{0, true}, PRef: aRef{2, worldInst, 1, 0, y.Id}, PSnds: []aSig{{1, true}, {2, true}}}
	w.inject(w.byId[1], &aMsg{Kind: "VC", Vote: &aVote{5, worldInst, 1, 1, split, aSig{0, true}}, Block: x}, "byz-vote-with-split-proof")
}

// earlyPrepareScript: members 0, 1, 2 move to view 1 (leader 1) while member 3 stays in view 0; member 0 - the leader
// of view 0 - adopts the NEW_VIEW and PREPAREs in view 1; that PREPARE reaches member 3 before the NEW_VIEW does and
// must be counted (C11: a correct PREPARE is counted unless the peer's view is higher).
func (w *world) earlyPrepareScript() {
	for _, n := range w.honest {
		w.sync(n, nil)
	}
	for _, id := range []uint64{0, 2, 1} {
		w.election(w.byId[id], 1, 0)
	}
	w.takeV(1, "VC", 0, 1)
	w.takeV(1, "VC", 2, 1)
	w.takeV(0, "NV", 1, 1)
	w.takeV(2, "NV", 1, 1)
	w.takeV(3, "P", 0, 1)
	w.takeV(3, "P", 2, 1)
	w.takeV(3, "NV", 1, 1)
	w.takeV(0, "P", 2, 1)
	w.takeV(2, "P", 0, 1)
}

// lazyReaderSweep: the membuffers readers are lazy - a size word that points outside the buffer panics only when the
// part is first read. For one message of every kind (votes with and without a prepared proof, a NEW_VIEW with votes),
// every 4-byte word is overwritten with each of four hostile values; the results the readers cannot read as a whole
// message are delivered as garbage to the member the original is addressed to, once for the current height (handled at
// once) and once for the next height (cached, consumed when the member gets there). No effect is allowed (C12).
func (w *world) lazyReaderSweep() {
	for _, n := range w.honest {
		w.sync(n, nil)
	}
	blk := func(h uint64) *aBlock { return &aBlock{Height: h, Id: 2999200 + h} }
	proof := func(h uint64) *aProof {
		return &aProof{PPRef: aRef{1, worldInst, h, 0, 2999200 + h}, PPSnd: aSig{0, true}, PRef: aRef{2, worldInst, h, 0, 2999200 + h}, PSnds: []aSig{{2, true}, {3, true}}}
	}
	var garbage [][]byte
	for _, h := range []uint64{1, 2} {
		vote0 := aVote{5, worldInst, h, 1, nil, aSig{0, true}}
		vote2 := aVote{5, worldInst, h, 1, proof(h), aSig{2, true}}
		vote3 := aVote{5, worldInst, h, 1, nil, aSig{3, true}}
		samples := []*aMsg{
			{Kind: "PP", Ref: aRef{1, worldInst, h, 0, 2999200 + h}, Snd: aSig{0, true}, Block: blk(h)},
			{Kind: "P", Ref: aRef{2, worldInst, h, 0, 2999200 + h}, Snd: aSig{2, true}},
			{Kind: "C", Ref: aRef{3, worldInst, h, 0, 2999200 + h}, Snd: aSig{2, true}, ShareOk: true},
			{Kind: "VC", Vote: &vote0},
			{Kind: "VC", Vote: &vote2, Block: blk(h)},
			{Kind: "NV", NVType: 4, NVInst: worldInst, NVHeight: h, NVView: 1, Votes: []aVote{vote0, vote2, vote3}, Snd: aSig{1, true},
				Ref: aRef{1, worldInst, h, 1, 2999200 + h}, PPSnd: aSig{1, true}, Block: blk(h)},
		}
		for _, m := range samples {
			src := w.codec.encode(m).Content
			for o := 0; o+4 <= len(src); o += 4 {
				for _, v := range []uint32{uint32(len(src)), 1 << 31, ^uint32(0) - 3, ^uint32(0)} {
					b := append([]byte{}, src...)
					b[o], b[o+1], b[o+2], b[o+3] = byte(v), byte(v>>8), byte(v>>16), byte(v>>24)
					raw := &interfaces.ConsensusRawMessage{Content: b}
					var dm *aMsg
					func() {
						defer func() { recover() }()
						dm = w.codec.decode(raw)
					}()
					if dm == nil {
						garbage = append(garbage, b)
					}
				}
			}
		}
	}
	w.rep.count(fmt.Sprintf("garbage:lazy-reader-sweep-%d-messages", len(garbage)))
	// member 1 leads view 1 at both heights (rotation 0): votes are addressed to it; the others get everything as well
	for _, n := range w.honest {
		for _, b := range garbage {
			raw := &interfaces.ConsensusRawMessage{Content: b}
			w.rep.count("event:garbage")
			n.apply("EGarbage", fmt.Sprintf("garbage bytes %x", b), evInfo{kind: "garbage"}, func() { n.vn.Deliver(raw) })
		}
	}
	for _, n := range w.honest {
		w.sync(n, blk(1))
	}
}

// lockedView0Script: all correct members get prepared in view 0 on the correct leader's block A, their COMMITs are
// withheld, they time out and send their votes - each carrying the view-0 prepared proof and A - to the Byzantine leader
// of view 1, which answers with a NEW_VIEW that embeds those genuine votes but proposes a fresh block B. A proof of
// view 0 is a proof: the NEW_VIEW must be ignored (C07, C09; zero is the boundary value of "highest proof view").
func (w *world) lockedView0Script() {
	for _, n := range w.honest {
		w.sync(n, nil)
	}
	w.take(2, "PP", 0)
	w.take(3, "PP", 0)
	w.take(0, "P", 2)
	w.take(0, "P", 3)
	w.take(2, "P", 3)
	w.take(3, "P", 2)
	for _, id := range []uint64{0, 2, 3} {
		w.election(w.byId[id], 1, 0)
	}
	var votes []aVote
	seen := map[uint64]bool{}
	for _, m := range w.history {
		if m.Kind == "VC" && m.Vote.Height == 1 && m.Vote.View == 1 && !seen[m.Vote.Snd.Id] && m.Vote.Snd.Ok {
			votes = append(votes, cloneVote(*m.Vote))
			seen[m.Vote.Snd.Id] = true
		}
	}
	if len(votes) < 3 {
		w.rep.count("world:directed-locked-view0-setup-failed")
		return
	}
	b := &aBlock{Height: 1, Id: 2999301}
	nv := &aMsg{Kind: "NV", NVType: 4, NVInst: worldInst, NVHeight: 1, NVView: 1, Votes: votes, Snd: aSig{1, true},
		Ref: aRef{1, worldInst, 1, 1, b.Id}, PPSnd: aSig{1, true}, Block: b}
	for _, id := range []uint64{0, 2, 3} {
		w.inject(w.byId[id], nv.clone(), "byz-NV-fresh-block-over-view0-proofs")
	}
	// whatever the members answered is delivered
	for k := 0; k < 40 && len(w.pool) > 0; k++ {
		p := w.pool[0]
		w.pool = w.pool[1:]
		if p.msg.Kind == "C" && p.msg.view() == 0 {
			continue // the COMMITs of view 0 stay lost
		}
		w.deliverG(w.byId[p.to], p.msg, p.raw, p.genuine)
	}
}

// doubleNewViewScript: the correct members time out of view 0 without being prepared and vote for view 1, whose leader
// is Byzantine; it answers with two well-formed NEW_VIEWs for view 1 that propose different blocks. A correct member
// PREPAREs at most one of them (C10: one hash per height and view).
func (w *world) doubleNewViewScript() {
	for _, n := range w.honest {
		w.sync(n, nil)
	}
	for _, id := range []uint64{0, 2, 3} {
		w.election(w.byId[id], 1, 0)
	}
	var votes []aVote
	seen := map[uint64]bool{}
	for _, m := range w.history {
		if m.Kind == "VC" && m.Vote.Height == 1 && m.Vote.View == 1 && !seen[m.Vote.Snd.Id] && m.Vote.Snd.Ok {
			votes = append(votes, cloneVote(*m.Vote))
			seen[m.Vote.Snd.Id] = true
		}
	}
	if len(votes) < 3 {
		w.rep.count("world:directed-double-new-view-setup-failed")
		return
	}
	for k, id := range []uint64{2999401, 2999402} {
		b := &aBlock{Height: 1, Id: id}
		nv := &aMsg{Kind: "NV", NVType: 4, NVInst: worldInst, NVHeight: 1, NVView: 1, Votes: votes, Snd: aSig{1, true},
			Ref: aRef{1, worldInst, 1, 1, b.Id}, PPSnd: aSig{1, true}, Block: b}
		for _, to := range []uint64{0, 2, 3} {
			w.inject(w.byId[to], nv.clone(), fmt.Sprintf("byz-NV-%d-of-2-same-view", k+1))
		}
	}
	for k := 0; k < 60 && len(w.pool) > 0; k++ {
		p := w.pool[0]
		w.pool = w.pool[1:]
		w.deliverG(w.byId[p.to], p.msg, p.raw, p.genuine)
	}
}

// missingBlockScript (lenient consumer only): the correct members vote for view 1; its Byzantine leader answers with a
// well-formed NEW_VIEW whose block is missing; whatever the members send is delivered. A block-less proposal may be
// stored but can never be prepared on or committed, and nothing may panic (C12).
func (w *world) missingBlockScript() {
	for _, n := range w.honest {
		w.sync(n, nil)
	}
	for _, id := range []uint64{0, 2, 3} {
		w.election(w.byId[id], 1, 0)
	}
	var votes []aVote
	seen := map[uint64]bool{}
	for _, m := range w.history {
		if m.Kind == "VC" && m.Vote.Height == 1 && m.Vote.View == 1 && !seen[m.Vote.Snd.Id] && m.Vote.Snd.Ok {
			votes = append(votes, cloneVote(*m.Vote))
			seen[m.Vote.Snd.Id] = true
		}
	}
	if len(votes) < 3 {
		w.rep.count("world:directed-missing-block-setup-failed")
		return
	}
	nv := &aMsg{Kind: "NV", NVType: 4, NVInst: worldInst, NVHeight: 1, NVView: 1, Votes: votes, Snd: aSig{1, true},
		Ref: aRef{1, worldInst, 1, 1, 2999501}, PPSnd: aSig{1, true}, Block: nil}
	for _, to := range []uint64{0, 2, 3} {
		w.inject(w.byId[to], nv.clone(), "byz-NV-without-block")
	}
	for k := 0; k < 80 && len(w.pool) > 0; k++ {
		p := w.pool[0]
		w.pool = w.pool[1:]
		w.deliverG(w.byId[p.to], p.msg, p.raw, p.genuine)
	}
	// the Byzantine leader adds its own PREPARE-less support: COMMITs are what completes a quorum of three with two correct ones
	for _, to := range []uint64{0, 2, 3} {
		w.inject(w.byId[to], &aMsg{Kind: "C", Ref: aRef{3, worldInst, 1, 1, 2999501}, Snd: aSig{1, true}, ShareOk: true}, "byz-C")
	}
	for k := 0; k < 80 && len(w.pool) > 0; k++ {
		p := w.pool[0]
		w.pool = w.pool[1:]
		w.deliverG(w.byId[p.to], p.msg, p.raw, p.genuine)
	}
}

// siblingInstanceProofScript: the correct members 0, 1, 2 PREPARE the leader's block A in view 0 (member 3 is
// Byzantine). Their PREPARE signatures over the same reference in the sibling instance are genuine too. Member 3 votes
// for view 1 with a "prepared proof" made of the leader's PREPREPARE reference of this instance and the PREPARE
// reference and signatures of the sibling instance. The correct leader of view 1 must not count that vote (C08).
func (w *world) siblingInstanceProofScript() {
	for _, n := range w.honest {
		w.sync(n, nil)
	}
	w.take(1, "PP", 0)
	w.take(2, "PP", 0)
	w.take(0, "P", 1)
	w.take(0, "P", 2)
	w.take(1, "P", 2)
	w.take(2, "P", 1)
	var a uint64
	for _, m := range w.history {
		if m.Kind == "PP" {
			a = m.Ref.Hash
		}
	}
	for _, id := range []uint64{0, 2} {
		w.election(w.byId[id], 1, 0)
	}
	proof := &aProof{PPRef: aRef{1, worldInst, 1, 0, a}, PPSnd: aSig{0, true}, PRef: aRef{2, worldInst + 1, 1, 0, a}, PSnds: []aSig{{1, true}, {2, true}}}
	w.inject(w.byId[1], &aMsg{Kind: "VC", Vote: &aVote{5, worldInst, 1, 1, proof, aSig{3, true}}, Block: w.blockOfHash(a)}, "byz-vote-with-sibling-instance-proof")
	for k := 0; k < 60 && len(w.pool) > 0; k++ {
		p := w.pool[0]
		w.pool = w.pool[1:]
		w.deliverG(w.byId[p.to], p.msg, p.raw, p.genuine)
	}
}

// staleNewViewScript (no Byzantine member): member 1 is elected for view 1 but its NEW_VIEW is slow; the others time out
// again and elect member 2 for view 2, which proposes a fresh block. Then the NEW_VIEW of view 1 reaches member 2 - a
// view it has left - followed by a duplicate of a vote for view 2. Member 2 must not be elected for view 2 a second
// time (C10: one proposal per height and view).
func (w *world) staleNewViewScript() {
	for _, n := range w.honest {
		w.sync(n, nil)
	}
	for _, id := range []uint64{0, 2, 3} {
		w.election(w.byId[id], 1, 0)
	}
	w.takeV(1, "VC", 0, 1)
	w.takeV(1, "VC", 2, 1)
	w.takeV(1, "VC", 3, 1)
	for _, id := range []uint64{0, 2, 3} {
		w.election(w.byId[id], 1, 1)
	}
	var dup *pend
	for i := range w.pool {
		p := w.pool[i]
		if p.to == 2 && p.msg.Kind == "VC" && p.msg.sender() == 0 && p.msg.view() == 2 {
			c := p
			dup = &c
		}
	}
	w.takeV(2, "VC", 0, 2)
	w.takeV(2, "VC", 3, 2)
	if !w.takeV(2, "NV", 1, 1) || dup == nil {
		w.rep.count("world:directed-stale-new-view-setup-failed")
		return
	}
	w.rep.count("sched:duplicate-delivery")
	w.deliverG(w.byId[2], dup.msg, dup.raw, dup.genuine)
	for k := 0; k < 60 && len(w.pool) > 0; k++ {
		p := w.pool[0]
		w.pool = w.pool[1:]
		w.deliverG(w.byId[p.to], p.msg, p.raw, p.genuine)
	}
}

// commitBeforePrepareScript (no Byzantine member): the COMMITs of members 0, 1, 3 overtake their PREPAREs on the way to
// member 2, which therefore commits before it is prepared; its commit callback fails, so the term stays. The late
// PREPAREs then make it prepared. The height must not be handed to the commit callback a second time (C13).
func (w *world) commitBeforePrepareScript() {
	w.failCommit[2] = []uint64{1}
	for _, n := range w.honest {
		w.sync(n, nil)
	}
	w.take(2, "PP", 0)
	w.take(1, "PP", 0)
	w.take(3, "PP", 0)
	w.take(0, "P", 1)
	w.take(0, "P", 3)
	w.take(1, "P", 3)
	w.take(3, "P", 1)
	w.take(2, "C", 0)
	w.take(2, "C", 1)
	w.take(2, "C", 3)
	w.take(2, "P", 1)
	w.take(2, "P", 3)
	for k := 0; k < 60 && len(w.pool) > 0; k++ {
		p := w.pool[0]
		w.pool = w.pool[1:]
		w.deliverG(w.byId[p.to], p.msg, p.raw, p.genuine)
	}
}

// lockedThenReproposedPrefix (member 3 Byzantine and silent, so the three correct members are exactly a quorum): member
// 1 gets prepared on the leader's block A in view 0, nobody commits; everybody times out; member 1 leads view 1 and
// re-proposes A, members 0 and 2 accept, but the PREPAREs of view 1 are lost. The state left behind - one member
// prepared in view 0 that has stored a later proposal without being prepared on it - is where stabilisation starts (C05).
func (w *world) lockedThenReproposedPrefix() {
	for _, n := range w.honest {
		w.sync(n, nil)
	}
	w.take(1, "PP", 0)
	w.take(2, "PP", 0)
	w.take(1, "P", 2)
	w.pool = nil
	for _, id := range []uint64{0, 1, 2} {
		w.election(w.byId[id], 1, 0)
	}
	w.takeV(1, "VC", 0, 1)
	w.takeV(1, "VC", 2, 1)
	w.takeV(0, "NV", 1, 1)
	w.takeV(2, "NV", 1, 1)
	w.pool = nil
}

// zeroWeightWorld / zeroWeightScript: five correct members, the second one without weight. The members evaluate quorums
// (PREPAREs of view 0) and then time out through a whole rotation; every VIEW_CHANGE must go to the member at position
// view mod 5 of the ordered committee, zero weight or not (C18).
func zeroWeightWorld(r *rand.Rand, rep *Report, seed int64) *world {
	w := &world{r: r, rep: rep, ord: rand.New(rand.NewSource(seed ^ 0x5bd1e995)), kr: newKeyring(seed), byz: map[uint64]bool{}, byId: map[uint64]*simNode{}, signed: map[string]bool{},
		proposedBy: map[uint64]uint64{}, validatedBy: map[uint64][]uint64{}, failCommit: map[uint64][]uint64{}, excl: map[uint64][]uint64{}, chain: map[uint64]*aBlock{}, held: map[uint64]bool{}}
	w.codec = newCodec(w.kr)
	w.n, w.weights, w.rot = 5, []uint64{1, 0, 1, 1, 1}, 0
	for i := uint64(0); i < 5; i++ {
		n := w.newNode(i)
		w.honest = append(w.honest, n)
		w.byId[i] = n
	}
	return w
}
func (w *world) zeroWeightScript() {
	for _, n := range w.honest {
		w.sync(n, nil)
	}
	for _, id := range []uint64{1, 2, 3, 4} {
		w.take(id, "PP", 0)
	}
	w.take(2, "P", 3) // one PREPARE each: a quorum is evaluated, nobody gets prepared (weights 1,0,1,1,1: quorum 3)
	w.take(3, "P", 2)
	w.take(4, "P", 2)
	w.take(0, "P", 2)
	w.take(1, "P", 2)
	w.pool = nil
	for v := uint64(0); v < 6; v++ {
		for _, n := range w.honest {
			st := n.vn.State()
			if uint64(st.Height()) == 1 && uint64(st.View()) == v {
				w.election(n, 1, v)
			}
		}
		w.pool = nil // the votes are lost: everybody keeps timing out
	}
}

// twoProofsScript (member 3 Byzantine, leader of view 3): member 0 gets prepared on A in view 1, member 1 on B in view 2
// (the leader of view 2 was elected by votes without proofs, so B is a fresh block). Everybody times out into view 3,
// whose Byzantine leader embeds both genuine votes - the one with the higher proof FIRST - and proposes the older
// block A. The NEW_VIEW must be ignored: the proposal has to be the block of the highest proof (C07, C09).
func (w *world) twoProofsScript() {
	for _, n := range w.honest {
		w.sync(n, nil)
	}
	w.pool = nil // view 0: the proposal is lost
	for _, id := range []uint64{0, 1, 2} {
		w.election(w.byId[id], 1, 0)
	}
	w.takeV(1, "VC", 0, 1)
	w.takeV(1, "VC", 2, 1) // member 1 elected for view 1 (own vote + two): proposes a fresh block A
	w.takeV(0, "NV", 1, 1)
	w.takeV(2, "NV", 1, 1)
	w.takeV(0, "P", 2, 1) // member 0: own PREPARE + leader + member 2 = prepared on A in view 1
	w.pool = nil
	for _, id := range []uint64{1, 2} {
		w.election(w.byId[id], 1, 1)
	}
	w.election(w.byId[0], 1, 1)
	w.takeV(2, "VC", 1, 2)
	w.inject(w.byId[2], &aMsg{Kind: "VC", Vote: &aVote{5, worldInst, 1, 2, nil, aSig{3, true}}}, "byz-VC") // member 2 elected for view 2 without seeing member 0's lock
	var a, b uint64
	for _, m := range w.history {
		if m.Kind == "NV" && m.NVView == 1 {
			a = m.Ref.Hash
		}
		if m.Kind == "NV" && m.NVView == 2 {
			b = m.Ref.Hash
		}
	}
	if a == 0 || b == 0 || a == b {
		w.rep.count("world:directed-two-proofs-setup-failed")
		return
	}
	w.takeV(1, "NV", 2, 2)
	w.inject(w.byId[1], &aMsg{Kind: "P", Ref: aRef{2, worldInst, 1, 2, b}, Snd: aSig{3, true}}, "byz-P") // member 1: own + leader 2 + Byzantine 3 = prepared on B in view 2
	w.pool = nil
	for _, id := range []uint64{0, 1, 2} {
		w.election(w.byId[id], 1, 2)
	}
	var v0, v1 *aVote
	for _, m := range w.history {
		if m.Kind == "VC" && m.Vote.View == 3 && m.Vote.Snd.Ok {
			c := cloneVote(*m.Vote)
			if m.Vote.Snd.Id == 0 {
				v0 = &c
			}
			if m.Vote.Snd.Id == 1 {
				v1 = &c
			}
		}
	}
	if v0 == nil || v1 == nil || v0.Proof == nil || v1.Proof == nil {
		w.rep.count("world:directed-two-proofs-setup-failed")
		return
	}
	votes := []aVote{*v1, *v0, {5, worldInst, 1, 3, nil, aSig{3, true}}}
	nv := &aMsg{Kind: "NV", NVType: 4, NVInst: worldInst, NVHeight: 1, NVView: 3, Votes: votes, Snd: aSig{3, true},
		Ref: aRef{1, worldInst, 1, 3, a}, PPSnd: aSig{3, true}, Block: w.blockOfHash(a)}
	for _, to := range []uint64{0, 1, 2} {
		w.inject(w.byId[to], nv.clone(), "byz-NV-older-block-higher-proof-first")
	}
	for k := 0; k < 60 && len(w.pool) > 0; k++ {
		p := w.pool[0]
		w.pool = w.pool[1:]
		w.deliverG(w.byId[p.to], p.msg, p.raw, p.genuine)
	}
}

// leaderPrepareAheadScript (member 1 Byzantine, leader of view 1): while the correct members are still in view 0 it sends
// them its own PREPARE for view 1 and the block it will propose there - a PREPARE the leader of its view may never
// send. The members then vote for view 1, adopt its NEW_VIEW, get prepared on genuine PREPAREs (the COMMITs are lost),
// time out again and vote for view 2 with their prepared proofs. The correct leader of view 2 must count those votes
// (C11: nothing a Byzantine member fed a correct node may make its later output unacceptable).
func (w *world) leaderPrepareAheadScript() {
	for _, n := range w.honest {
		w.sync(n, nil)
	}
	w.pool = nil // the proposal of view 0 is lost
	b := &aBlock{Height: 1, Id: 2999601}
	for _, id := range []uint64{0, 2, 3} {
		w.inject(w.byId[id], &aMsg{Kind: "P", Ref: aRef{2, worldInst, 1, 1, b.Id}, Snd: aSig{1, true}}, "byz-P-of-the-next-leader-ahead-of-its-view")
	}
	for _, id := range []uint64{0, 2, 3} {
		w.election(w.byId[id], 1, 0)
	}
	var votes []aVote
	seen := map[uint64]bool{}
	for _, m := range w.history {
		if m.Kind == "VC" && m.Vote.Height == 1 && m.Vote.View == 1 && !seen[m.Vote.Snd.Id] && m.Vote.Snd.Ok {
			votes = append(votes, cloneVote(*m.Vote))
			seen[m.Vote.Snd.Id] = true
		}
	}
	if len(votes) < 3 {
		w.rep.count("world:directed-leader-prepare-ahead-setup-failed")
		return
	}
	w.pool = nil
	nv := &aMsg{Kind: "NV", NVType: 4, NVInst: worldInst, NVHeight: 1, NVView: 1, Votes: votes, Snd: aSig{1, true},
		Ref: aRef{1, worldInst, 1, 1, b.Id}, PPSnd: aSig{1, true}, Block: b}
	for _, id := range []uint64{0, 2, 3} {
		w.inject(w.byId[id], nv.clone(), "byz-NV")
	}
	drain := func() {
		for k := 0; k < 80 && len(w.pool) > 0; k++ {
			p := w.pool[0]
			w.pool = w.pool[1:]
			if p.msg.Kind == "C" || w.byz[p.to] {
				continue // the COMMITs stay lost
			}
			w.deliverG(w.byId[p.to], p.msg, p.raw, p.genuine)
		}
	}
	drain()
	for _, id := range []uint64{0, 3, 2} {
		w.election(w.byId[id], 1, 1)
	}
	drain()
}

// liftedProofScript (member 3 Byzantine, leader of view 3): members 1 and 2 PREPARE the block A of view 0, nobody gets
// prepared on it; view 1 elects member 1, whose fresh block B is prepared by everybody and committed by member 2 alone.
// Members 0 and 1 time out through views 1, 2, 3 and vote for view 4 with their proofs of (view 1, B). Member 3 votes
// for view 4 with a "proof" made of its own PREPREPARE signature over (view 3, A) and the genuine PREPAREs over
// (view 0, A): two different views, no proof. If the leader of view 4 counted it, A would be the highest proof, be
// re-proposed and committed by members 0 and 1 next to B (C01, C08).
func (w *world) liftedProofScript() {
	for _, n := range w.honest {
		w.sync(n, nil)
	}
	w.take(1, "PP", 0)
	w.take(2, "PP", 0)
	var a uint64
	for _, m := range w.history {
		if m.Kind == "PP" && m.Ref.View == 0 {
			a = m.Ref.Hash
		}
	}
	w.pool = nil // the PREPAREs over A reach only the Byzantine member
	for _, id := range []uint64{0, 2, 1} {
		w.election(w.byId[id], 1, 0)
	}
	w.takeV(1, "VC", 0, 1)
	w.takeV(1, "VC", 2, 1)
	w.takeV(0, "NV", 1, 1)
	w.takeV(2, "NV", 1, 1)
	w.takeV(0, "P", 2, 1)
	w.takeV(1, "P", 0, 1)
	w.takeV(1, "P", 2, 1)
	w.takeV(2, "P", 0, 1)
	w.takeV(2, "C", 0, 1)
	w.takeV(2, "C", 1, 1)
	w.pool = nil
	if a == 0 || !w.byId[2].hasCommitted(1) || w.byId[0].hasCommitted(1) || w.byId[1].hasCommitted(1) {
		w.rep.count("world:directed-lifted-proof-setup-failed")
		return
	}
	for v := uint64(1); v <= 3; v++ {
		for _, id := range []uint64{0, 1} {
			w.election(w.byId[id], 1, v)
		}
		if v < 3 {
			w.pool = nil
		}
	}
	w.takeV(0, "VC", 1, 4)
	w.pool = nil
	lifted := &aProof{PPRef: aRef{1, worldInst, 1, 3, a}, PPSnd: aSig{3, true}, PRef: aRef{2, worldInst, 1, 0, a}, PSnds: []aSig{{1, true}, {2, true}}}
	w.inject(w.byId[0], &aMsg{Kind: "VC", Vote: &aVote{5, worldInst, 1, 4, lifted, aSig{3, true}}, Block: w.blockOfHash(a)}, "byz-vote-with-proof-lifted-to-its-own-view")
	drain := func() {
		for k := 0; k < 80 && len(w.pool) > 0; k++ {
			p := w.pool[0]
			w.pool = w.pool[1:]
			if w.byz[p.to] || p.to == 2 {
				continue
			}
			w.deliverG(w.byId[p.to], p.msg, p.raw, p.genuine)
		}
	}
	drain()
	// the Byzantine member supports whatever was proposed in view 4
	for _, m := range append([]*aMsg{}, w.history...) {
		if m.Kind == "NV" && m.NVView == 4 {
			for _, to := range []uint64{0, 1} {
				w.inject(w.byId[to], &aMsg{Kind: "P", Ref: aRef{2, worldInst, 1, 4, m.Ref.Hash}, Snd: aSig{3, true}}, "byz-P")
				w.inject(w.byId[to], &aMsg{Kind: "C", Ref: aRef{3, worldInst, 1, 4, m.Ref.Hash}, Snd: aSig{3, true}, ShareOk: true}, "byz-C")
			}
			break
		}
	}
	drain()
}

// foreignInstanceAheadScript (member 1 Byzantine, leader of view 1): members 0 and 2 are at height 2 and vote for view 1;
// member 3 is still at height 1. The leader sends member 3 a NEW_VIEW for (height 2, view 1) that is valid in every
// part except that its own signed header names the sibling instance. Then member 3 reaches height 2. A NEW_VIEW that is
// not "for exactly this instance" is no certificate (C07), whenever it arrived (C17).
func (w *world) foreignInstanceAheadScript() {
	for _, n := range w.honest {
		w.sync(n, nil)
	}
	b1 := &aBlock{Height: 1, Id: 2999801}
	w.sync(w.byId[0], b1)
	w.sync(w.byId[2], b1)
	w.pool = nil
	w.election(w.byId[0], 2, 0)
	w.election(w.byId[2], 2, 0)
	votes := []aVote{{5, worldInst, 2, 1, nil, aSig{1, true}}}
	seen := map[uint64]bool{}
	for _, m := range w.history {
		if m.Kind == "VC" && m.Vote.Height == 2 && m.Vote.View == 1 && !seen[m.Vote.Snd.Id] && m.Vote.Snd.Ok {
			votes = append(votes, cloneVote(*m.Vote))
			seen[m.Vote.Snd.Id] = true
		}
	}
	if len(votes) < 3 {
		w.rep.count("world:directed-foreign-instance-ahead-setup-failed")
		return
	}
	w.pool = nil
	b := &aBlock{Height: 2, Id: 2999802}
	nv := &aMsg{Kind: "NV", NVType: 4, NVInst: worldInst + 1, NVHeight: 2, NVView: 1, Votes: votes, Snd: aSig{1, true},
		Ref: aRef{1, worldInst, 2, 1, b.Id}, PPSnd: aSig{1, true}, Block: b}
	w.inject(w.byId[3], nv, "byz-NV-header-of-sibling-instance-one-height-early")
	w.sync(w.byId[3], b1)
	for k := 0; k < 60 && len(w.pool) > 0; k++ {
		p := w.pool[0]
		w.pool = w.pool[1:]
		if w.byz[p.to] {
			continue
		}
		w.deliverG(w.byId[p.to], p.msg, p.raw, p.genuine)
	}
}

// barePreprepareThenNewViewScript (worlds with standalone PREPREPAREs, member 1 Byzantine and leader of view 1): the
// correct members reach view 1 by their own timeouts; the leader first sends a bare PREPREPARE for block A (adopted:
// known finding KF-1), then a NEW_VIEW for the same view that is valid in every part and proposes block B. Whatever a
// member thinks of the first message, it PREPAREs one hash in view 1 (C10).
func (w *world) barePreprepareThenNewViewScript() {
	for _, n := range w.honest {
		w.sync(n, nil)
	}
	w.pool = nil
	for _, id := range []uint64{0, 2, 3} {
		w.election(w.byId[id], 1, 0)
	}
	var votes []aVote
	seen := map[uint64]bool{}
	for _, m := range w.history {
		if m.Kind == "VC" && m.Vote.Height == 1 && m.Vote.View == 1 && !seen[m.Vote.Snd.Id] && m.Vote.Snd.Ok {
			votes = append(votes, cloneVote(*m.Vote))
			seen[m.Vote.Snd.Id] = true
		}
	}
	if len(votes) < 3 {
		w.rep.count("world:directed-bare-preprepare-then-new-view-setup-failed")
		return
	}
	w.pool = nil
	a, b := &aBlock{Height: 1, Id: 2999901}, &aBlock{Height: 1, Id: 2999902}
	for _, id := range []uint64{0, 2, 3} {
		w.inject(w.byId[id], &aMsg{Kind: "PP", Ref: aRef{1, worldInst, 1, 1, a.Id}, Snd: aSig{1, true}, Block: a}, "byz-standalone-preprepare-view1")
	}
	nv := &aMsg{Kind: "NV", NVType: 4, NVInst: worldInst, NVHeight: 1, NVView: 1, Votes: votes, Snd: aSig{1, true},
		Ref: aRef{1, worldInst, 1, 1, b.Id}, PPSnd: aSig{1, true}, Block: b}
	for _, id := range []uint64{0, 2, 3} {
		w.inject(w.byId[id], nv.clone(), "byz-NV-other-block-after-bare-preprepare")
	}
	for k := 0; k < 60 && len(w.pool) > 0; k++ {
		p := w.pool[0]
		w.pool = w.pool[1:]
		if w.byz[p.to] {
			continue
		}
		w.deliverG(w.byId[p.to], p.msg, p.raw, p.genuine)
	}
}

// wrongBlockVotePrefix (live engine, member 3 Byzantine): members 1 and 2 PREPARE the leader's block A in view 0, the
// PREPAREs reach only the Byzantine member; everybody keeps the proposal without getting prepared. The correct members
// vote for view 1; the Byzantine member sends the leader of view 1 a vote with the genuine proof of (view 0, A) and a
// DIFFERENT block attached. A vote whose block does not match its proof is not counted: the leader's NEW_VIEW would carry
// that block under A's hash and every correct member would reject it (C05: an honest-led view must be able to commit;
// C11: an honest NEW_VIEW is adopted).
func (w *world) wrongBlockVotePrefix() {
	for _, n := range w.honest {
		w.sync(n, nil)
	}
	w.take(1, "PP", 0)
	w.take(2, "PP", 0)
	var a uint64
	for _, m := range w.history {
		if m.Kind == "PP" && m.Ref.View == 0 {
			a = m.Ref.Hash
		}
	}
	w.pool = nil
	if a == 0 {
		w.rep.count("world:directed-wrong-block-vote-setup-failed")
		return
	}
	proof := &aProof{PPRef: aRef{1, worldInst, 1, 0, a}, PPSnd: aSig{0, true}, PRef: aRef{2, worldInst, 1, 0, a}, PSnds: []aSig{{1, true}, {2, true}}}
	z := &aBlock{Height: 1, Id: 2999951}
	w.inject(w.byId[1], &aMsg{Kind: "VC", Vote: &aVote{5, worldInst, 1, 1, proof, aSig{3, true}}, Block: z}, "byz-vote-genuine-proof-wrong-block")
	for _, id := range []uint64{0, 2, 1} {
		w.election(w.byId[id], 1, 0)
	}
}

// bareBlockVoteScript (member 3 Byzantine): it sends the leader of view 1 a vote without a proof but with a block
// attached; the correct members vote without proofs. No counted vote carries a proof, so the leader proposes a fresh
// block of its own - never the attached one (C09).
func (w *world) bareBlockVoteScript() {
	for _, n := range w.honest {
		w.sync(n, nil)
	}
	w.pool = nil
	z := &aBlock{Height: 1, Id: 2999961}
	w.inject(w.byId[1], &aMsg{Kind: "VC", Vote: &aVote{5, worldInst, 1, 1, nil, aSig{3, true}}, Block: z}, "byz-vote-without-proof-with-block")
	for _, id := range []uint64{0, 2, 1} {
		w.election(w.byId[id], 1, 0)
	}
	for k := 0; k < 80 && len(w.pool) > 0; k++ {
		p := w.pool[0]
		w.pool = w.pool[1:]
		if w.byz[p.to] {
			continue
		}
		w.deliverG(w.byId[p.to], p.msg, p.raw, p.genuine)
	}
}

// outsiderLeaderScript (four correct members): an identity outside the committee, with a key of its own, sends members
// 1, 2, 3 a well-formed PREPREPARE for view 0 before the leader's arrives, and one for view 4 (= n, the next view whose
// leader sits at position 0). An outsider is the leader of no view (C18, C08): nothing is stored, nobody PREPAREs.
func (w *world) outsiderLeaderScript() {
	for _, n := range w.honest {
		w.sync(n, nil)
	}
	w.byz[4] = true // the outsider's key is the adversary's
	z := &aBlock{Height: 1, Id: 2999971}
	for _, id := range []uint64{1, 2, 3} {
		w.inject(w.byId[id], &aMsg{Kind: "PP", Ref: aRef{1, worldInst, 1, 0, z.Id}, Snd: aSig{4, true}, Block: z}, "outsider-PP-view0")
		w.inject(w.byId[id], &aMsg{Kind: "PP", Ref: aRef{1, worldInst, 1, 4, z.Id}, Snd: aSig{4, true}, Block: z}, "outsider-PP-view-n")
	}
	delete(w.byz, 4)
	for k := 0; k < 60 && len(w.pool) > 0; k++ {
		p := w.pool[0]
		w.pool = w.pool[1:]
		w.deliverG(w.byId[p.to], p.msg, p.raw, p.genuine)
	}
}

// failedBroadcastScript (four correct members): the proposal of view 0 is lost, everybody times out, member 1 is elected
// for view 1 by three votes and broadcasts its NEW_VIEW - the transport reports a failure although the message went
// out. Then the fourth vote arrives. The leader has proposed for view 1; it proposes nothing else for it (C10).
func (w *world) failedBroadcastScript() {
	for _, n := range w.honest {
		w.sync(n, nil)
	}
	w.pool = nil
	w.failSend = "NV"
	for _, id := range []uint64{0, 2, 3, 1} {
		w.election(w.byId[id], 1, 0)
	}
	w.takeV(1, "VC", 0, 1)
	w.takeV(1, "VC", 2, 1)
	w.takeV(1, "VC", 3, 1)
	w.failSend = "-"
	for k := 0; k < 60 && len(w.pool) > 0; k++ {
		p := w.pool[0]
		w.pool = w.pool[1:]
		w.deliverG(w.byId[p.to], p.msg, p.raw, p.genuine)
	}
}

// splitSyncScript (four correct members): member 3 is one COMMIT short of committing height 1. The missing COMMIT
// arrives, and while its worker is inside the commit callback the main loop accepts a sync to a block of height 3 (the
// two loops run side by side; the callback is where the harness lets the other one act). Back from the callback the
// round of height 2 cannot start - its context is already superseded: the member stays where it is, at height 1 with
// the term of height 1, until the worker takes the sync from its channel; a message of height 2 that arrives in between
// is a future message (C17, C13) and never reaches the term of height 1. From the interleaved event on the member is
// judged by the monitors only: the sequential node model has no event for "main loop inside a worker callback" (the
// two-loop model Loops.v has, on the abstraction of heights and contexts).
func (w *world) splitSyncScript() {
	for _, n := range w.honest {
		w.sync(n, nil)
	}
	for _, id := range []uint64{1, 2, 3} {
		w.take(id, "PP", 0)
	}
	for _, to := range []uint64{0, 1, 2, 3} {
		for _, from := range []uint64{1, 2, 3} {
			if from != to {
				w.take(to, "P", from)
			}
		}
	}
	// members 0, 1, 2 exchange their COMMITs and move on to height 2; member 3 gets one COMMIT only
	for _, to := range []uint64{0, 1, 2} {
		for _, from := range []uint64{0, 1, 2, 3} {
			if from != to {
				w.take(to, "C", from)
			}
		}
	}
	w.take(3, "C", 0)
	n3 := w.byId[3]
	if n3.hasCommitted(1) || uint64(n3.vn.State().Height()) != 1 {
		w.rep.count("world:directed-split-sync-setup-failed")
		return
	}
	b3 := &aBlock{Height: 3, Id: 2999981}
	blk := w.codec.mkBlock(b3)
	accepted := false
	n3.duringCommit = func() { accepted = n3.vn.SyncMainHalf(blk) }
	n3.untracked = true
	w.take(3, "C", 1)
	if !accepted {
		w.rep.count("world:directed-split-sync-setup-failed")
		return
	}
	w.rep.count("event:sync-main-half-inside-commit-callback")
	// whatever members 0, 1, 2 sent for height 2 reaches member 3 now
	for k := 0; k < 40 && len(w.pool) > 0; k++ {
		p := w.pool[0]
		w.pool = w.pool[1:]
		if p.to != 3 {
			continue
		}
		w.deliverG(n3, p.msg, p.raw, p.genuine)
	}
	n3.apply("ESyncWorker "+b3.coq(), "worker applies the sync to block of height 3", evInfo{kind: "sync"}, func() { n3.vn.SyncWorkerHalf(blk, w.codec.syncProof(3)) })
	if uint64(n3.vn.State().Height()) != 4 {
		w.rep.finding("C14", "sync-no-effect", fmt.Sprintf("node 3 is at height %d after the accepted sync to block 3 was applied", uint64(n3.vn.State().Height())), w.traceInput())
	}
}

// wrongHeightProposalScript (member 1 Byzantine, leader of view 1): the correct members vote for view 1 without proofs;
// the leader answers with a NEW_VIEW that is valid in every part and proposes a block of height 7 (under that block's
// true hash) for height 1. The consumer is asked to validate a proposal FOR THE HEIGHT BEING DECIDED and rejects a
// block of another height: nobody PREPAREs, nothing is committed (C04).
func (w *world) wrongHeightProposalScript() {
	for _, n := range w.honest {
		w.sync(n, nil)
	}
	w.pool = nil
	for _, id := range []uint64{0, 2, 3} {
		w.election(w.byId[id], 1, 0)
	}
	var votes []aVote
	seen := map[uint64]bool{}
	for _, m := range w.history {
		if m.Kind == "VC" && m.Vote.Height == 1 && m.Vote.View == 1 && !seen[m.Vote.Snd.Id] && m.Vote.Snd.Ok {
			votes = append(votes, cloneVote(*m.Vote))
			seen[m.Vote.Snd.Id] = true
		}
	}
	if len(votes) < 3 {
		w.rep.count("world:directed-wrong-height-proposal-setup-failed")
		return
	}
	w.pool = nil
	b := &aBlock{Height: 7, Id: 2999991}
	nv := &aMsg{Kind: "NV", NVType: 4, NVInst: worldInst, NVHeight: 1, NVView: 1, Votes: votes, Snd: aSig{1, true},
		Ref: aRef{1, worldInst, 1, 1, b.Id}, PPSnd: aSig{1, true}, Block: b}
	for _, id := range []uint64{0, 2, 3} {
		w.inject(w.byId[id], nv.clone(), "byz-NV-block-of-another-height")
	}
	for k := 0; k < 60 && len(w.pool) > 0; k++ {
		p := w.pool[0]
		w.pool = w.pool[1:]
		if w.byz[p.to] {
			continue
		}
		w.deliverG(w.byId[p.to], p.msg, p.raw, p.genuine)
	}
	// the Byzantine leader supports its own proposal
	for _, id := range []uint64{0, 2, 3} {
		w.inject(w.byId[id], &aMsg{Kind: "P", Ref: aRef{2, worldInst, 1, 1, b.Id}, Snd: aSig{1, true}}, "byz-P")
		w.inject(w.byId[id], &aMsg{Kind: "C", Ref: aRef{3, worldInst, 1, 1, b.Id}, Snd: aSig{1, true}, ShareOk: true}, "byz-C")
	}
	for k := 0; k < 60 && len(w.pool) > 0; k++ {
		p := w.pool[0]
		w.pool = w.pool[1:]
		if w.byz[p.to] {
			continue
		}
		w.deliverG(w.byId[p.to], p.msg, p.raw, p.genuine)
	}
}

// foreignHashPrepareScript (member 3 Byzantine): members 1 and 2 receive the leader's proposal A; the Byzantine member
// sends each of them - one before, one after the proposal - its PREPARE and COMMIT for another hash B (block hashes here are long byte strings that agree in their first
// 40 bytes). Proposal + own PREPARE + that PREPARE is quorum weight only if B is counted for A: nobody is prepared,
// nobody sends COMMIT (C10: a COMMIT for (v, x) needs a prepared certificate for exactly (v, x)).
func (w *world) foreignHashPrepareScript() {
	for _, n := range w.honest {
		w.sync(n, nil)
	}
	// member 1 hears the Byzantine member first, member 2 the leader first
	w.inject(w.byId[1], &aMsg{Kind: "P", Ref: aRef{2, worldInst, 1, 0, 2999995}, Snd: aSig{3, true}}, "byz-P-other-hash")
	w.inject(w.byId[1], &aMsg{Kind: "C", Ref: aRef{3, worldInst, 1, 0, 2999995}, Snd: aSig{3, true}, ShareOk: true}, "byz-C-other-hash")
	w.take(1, "PP", 0)
	w.take(2, "PP", 0)
	w.inject(w.byId[2], &aMsg{Kind: "P", Ref: aRef{2, worldInst, 1, 0, 2999995}, Snd: aSig{3, true}}, "byz-P-other-hash")
	w.inject(w.byId[2], &aMsg{Kind: "C", Ref: aRef{3, worldInst, 1, 0, 2999995}, Snd: aSig{3, true}, ShareOk: true}, "byz-C-other-hash")
	// their own PREPAREs reach nobody; what they may have sent as COMMIT does
	for k := 0; k < 20 && len(w.pool) > 0; k++ {
		p := w.pool[0]
		w.pool = w.pool[1:]
		if w.byz[p.to] || p.msg.Kind != "C" {
			continue
		}
		w.deliverG(w.byId[p.to], p.msg, p.raw, p.genuine)
	}
}

// forgedProofAfterGenuineScript (member 3 Byzantine, leader of view 3): member 0 gets prepared on A in view 1; view 2
// re-proposes A on member 0's genuine proof (members 0 and 2 validate that proof of view 1). Everybody times out of
// view 2; members 1 and 2 vote without proofs. The Byzantine leader of view 3 adds its own vote with a "proof" that
// claims view 1 for another block B and is signed by nobody but itself, and proposes B. A proof is validated every time
// it is presented: the NEW_VIEW is ignored (C07, C08).
func (w *world) forgedProofAfterGenuineScript() {
	for _, n := range w.honest {
		w.sync(n, nil)
	}
	w.pool = nil
	for _, id := range []uint64{0, 2, 1} {
		w.election(w.byId[id], 1, 0)
	}
	w.takeV(1, "VC", 0, 1)
	w.takeV(1, "VC", 2, 1)
	w.takeV(0, "NV", 1, 1)
	w.takeV(2, "NV", 1, 1)
	w.takeV(0, "P", 2, 1) // member 0 is prepared on A in view 1
	w.pool = nil
	for _, id := range []uint64{0, 1, 2} {
		w.election(w.byId[id], 1, 1)
	}
	w.takeV(2, "VC", 0, 2)
	w.takeV(2, "VC", 1, 2)
	w.takeV(0, "NV", 2, 2) // re-proposal of A; the proof of view 1 is validated by members 2 and 0
	w.pool = nil
	for _, id := range []uint64{1, 2, 0} {
		w.election(w.byId[id], 1, 2)
	}
	var votes []aVote
	for _, m := range w.history {
		if m.Kind == "VC" && m.Vote.Height == 1 && m.Vote.View == 3 && m.Vote.Snd.Ok && (m.Vote.Snd.Id == 1 || m.Vote.Snd.Id == 2) && m.Vote.Proof == nil {
			votes = append(votes, cloneVote(*m.Vote))
		}
	}
	if len(votes) != 2 {
		w.rep.count("world:directed-forged-proof-after-genuine-setup-failed")
		return
	}
	w.pool = nil
	b := &aBlock{Height: 1, Id: 2999996}
	forged := &aProof{PPRef: aRef{1, worldInst, 1, 1, b.Id}, PPSnd: aSig{3, true}, PRef: aRef{2, worldInst, 1, 1, b.Id}, PSnds: []aSig{{3, true}}}
	votes = append(votes, aVote{5, worldInst, 1, 3, forged, aSig{3, true}})
	nv := &aMsg{Kind: "NV", NVType: 4, NVInst: worldInst, NVHeight: 1, NVView: 3, Votes: votes, Snd: aSig{3, true},
		Ref: aRef{1, worldInst, 1, 3, b.Id}, PPSnd: aSig{3, true}, Block: b}
	for _, id := range []uint64{0, 2, 1} {
		w.inject(w.byId[id], nv.clone(), "byz-NV-forged-proof-of-a-view-validated-before")
	}
	for k := 0; k < 40 && len(w.pool) > 0; k++ {
		p := w.pool[0]
		w.pool = w.pool[1:]
		if w.byz[p.to] {
			continue
		}
		w.deliverG(w.byId[p.to], p.msg, p.raw, p.genuine)
	}
}

// replayedVotesScript (member 1 Byzantine, leader of views 1 and 5): the correct members vote for view 1 and nothing
// comes of it; they time out through views 1..4 (all votes lost) and sit in view 5. The Byzantine member now sends a
// NEW_VIEW for view 5 that embeds their genuine votes for view 1 - a view with the same leader, n views earlier. Votes
// count for the view they name (C08, C07): the NEW_VIEW is ignored.
func (w *world) replayedVotesScript() {
	for _, n := range w.honest {
		w.sync(n, nil)
	}
	w.pool = nil
	for v := uint64(0); v <= 4; v++ {
		for _, id := range []uint64{0, 2, 3} {
			w.election(w.byId[id], 1, v)
		}
		w.pool = nil
	}
	votes := []aVote{{5, worldInst, 1, 1, nil, aSig{1, true}}}
	seen := map[uint64]bool{}
	for _, m := range w.history {
		if m.Kind == "VC" && m.Vote.Height == 1 && m.Vote.View == 1 && !seen[m.Vote.Snd.Id] && m.Vote.Snd.Ok {
			votes = append(votes, cloneVote(*m.Vote))
			seen[m.Vote.Snd.Id] = true
		}
	}
	if len(votes) < 4 {
		w.rep.count("world:directed-replayed-votes-setup-failed")
		return
	}
	b := &aBlock{Height: 1, Id: 2999997}
	nv := &aMsg{Kind: "NV", NVType: 4, NVInst: worldInst, NVHeight: 1, NVView: 5, Votes: votes, Snd: aSig{1, true},
		Ref: aRef{1, worldInst, 1, 5, b.Id}, PPSnd: aSig{1, true}, Block: b}
	for _, id := range []uint64{0, 2, 3} {
		w.inject(w.byId[id], nv.clone(), "byz-NV-with-votes-of-an-earlier-view-of-the-same-leader")
	}
	for k := 0; k < 40 && len(w.pool) > 0; k++ {
		p := w.pool[0]
		w.pool = w.pool[1:]
		if w.byz[p.to] {
			continue
		}
		w.deliverG(w.byId[p.to], p.msg, p.raw, p.genuine)
	}
}

// takeH: deliver the pending message of that kind, sender and HEIGHT (view 0) to a member
func (w *world) takeH(to uint64, kind string, from uint64, height uint64) bool {
	for i, p := range w.pool {
		if p.to == to && p.msg.Kind == kind && p.msg.sender() == from && p.msg.height() == height && p.msg.view() == 0 {
			w.pool = append(w.pool[:i], w.pool[i+1:]...)
			w.deliverG(w.byId[p.to], p.msg, p.raw, p.genuine)
			return true
		}
	}
	return false
}

// cachedBadCommitScript (member 3 Byzantine): members 0 and 1 have committed height 1 and work on height 2; member 2 is
// still at height 1. It receives, for height 2 and in this order: a COMMIT of the Byzantine member whose random-seed
// share does not verify, the leader's PREPREPARE, member 1's PREPARE - all cached. Then it commits height 1. Every cached
// message of height 2 is handed to the term of height 2, in arrival order, whatever the term thinks of the others (C17):
// the bad COMMIT is refused, the proposal is accepted and answered with a PREPARE.
func (w *world) cachedBadCommitScript() {
	for _, n := range w.honest {
		w.sync(n, nil)
	}
	w.takeH(1, "PP", 0, 1)
	w.takeH(2, "PP", 0, 1)
	for _, x := range [][2]uint64{{0, 1}, {0, 2}, {1, 2}, {2, 1}} {
		w.takeH(x[0], "P", x[1], 1)
	}
	for _, x := range [][2]uint64{{0, 1}, {0, 2}, {1, 0}, {1, 2}} {
		w.takeH(x[0], "C", x[1], 1)
	}
	n2 := w.byId[2]
	if !w.byId[0].hasCommitted(1) || !w.byId[1].hasCommitted(1) || n2.hasCommitted(1) {
		w.rep.count("world:directed-cached-bad-commit-setup-failed")
		return
	}
	w.takeH(1, "PP", 0, 2) // member 1 PREPAREs the proposal of height 2
	var h2 uint64
	for _, m := range w.history {
		if m.Kind == "PP" && m.Ref.Height == 2 {
			h2 = m.Ref.Hash
		}
	}
	if h2 == 0 {
		w.rep.count("world:directed-cached-bad-commit-setup-failed")
		return
	}
	w.inject(n2, &aMsg{Kind: "C", Ref: aRef{3, worldInst, 2, 0, h2}, Snd: aSig{3, true}, ShareOk: false}, "byz-C-bad-share-one-height-early")
	w.takeH(2, "PP", 0, 2)
	w.takeH(2, "P", 1, 2)
	sentBefore := len(n2.sentLog)
	w.takeH(2, "C", 0, 1)
	w.takeH(2, "C", 1, 1) // member 2 commits height 1, starts height 2 and consumes its cache
	if uint64(n2.vn.State().Height()) != 2 {
		w.rep.count("world:directed-cached-bad-commit-setup-failed")
		return
	}
	answered := false
	for _, m := range n2.sentLog[sentBefore:] {
		if m.Kind == "P" && m.Ref.Height == 2 && m.Ref.Hash == h2 {
			answered = true
		}
	}
	if !answered {
		w.rep.finding("C17", "cached-message-not-delivered", "node 2 cached [COMMIT with a bad share, the leader's PREPREPARE, a PREPARE] for height 2; on starting height 2 it did not answer the proposal: the messages cached after the refused COMMIT did not reach the term", w.traceInput())
	}
}

// rehashedBlockScript (member 1 Byzantine, leader of view 1): members 0, 2, 3 hold the correct leader's proposal A of
// view 0, nobody is prepared; they vote for view 1 without proofs. The Byzantine leader's NEW_VIEW signs A's hash again
// and attaches another block B to the copies for members 0 and 2 (the attached block is covered by no signature: only
// the consumer's validation binds it to the signed hash). A proposal is validated whenever it arrives without a lock
// (C04): B under A's hash is rejected, nobody delivers B (C01).
func (w *world) rehashedBlockScript() {
	for _, n := range w.honest {
		w.sync(n, nil)
	}
	w.take(2, "PP", 0)
	w.take(3, "PP", 0)
	var a uint64
	for _, m := range w.history {
		if m.Kind == "PP" && m.Ref.View == 0 {
			a = m.Ref.Hash
		}
	}
	w.pool = nil
	for _, id := range []uint64{0, 2, 3} {
		w.election(w.byId[id], 1, 0)
	}
	var votes []aVote
	seen := map[uint64]bool{}
	for _, m := range w.history {
		if m.Kind == "VC" && m.Vote.Height == 1 && m.Vote.View == 1 && !seen[m.Vote.Snd.Id] && m.Vote.Snd.Ok {
			votes = append(votes, cloneVote(*m.Vote))
			seen[m.Vote.Snd.Id] = true
		}
	}
	if a == 0 || len(votes) < 3 {
		w.rep.count("world:directed-rehashed-block-setup-failed")
		return
	}
	w.pool = nil
	for _, id := range []uint64{0, 2, 3} {
		blk := w.blockOfHash(a)
		if id != 3 {
			blk = &aBlock{Height: 1, Id: 2999998} // another block under A's hash
		}
		nv := &aMsg{Kind: "NV", NVType: 4, NVInst: worldInst, NVHeight: 1, NVView: 1, Votes: votes, Snd: aSig{1, true},
			Ref: aRef{1, worldInst, 1, 1, a}, PPSnd: aSig{1, true}, Block: blk}
		w.inject(w.byId[id], nv, "byz-NV-known-hash-other-block")
	}
	for round := 0; round < 2; round++ {
		for k := 0; k < 60 && len(w.pool) > 0; k++ {
			p := w.pool[0]
			w.pool = w.pool[1:]
			if w.byz[p.to] {
				continue
			}
			w.deliverG(w.byId[p.to], p.msg, p.raw, p.genuine)
		}
		for _, id := range []uint64{0, 2, 3} { // the Byzantine leader supports the hash it signed
			w.inject(w.byId[id], &aMsg{Kind: "P", Ref: aRef{2, worldInst, 1, 1, a}, Snd: aSig{1, true}}, "byz-P")
			w.inject(w.byId[id], &aMsg{Kind: "C", Ref: aRef{3, worldInst, 1, 1, a}, Snd: aSig{1, true}, ShareOk: true}, "byz-C")
		}
	}
}

// replayedSignatureScript (member 3 Byzantine): member 1 is prepared on A and holds its own COMMIT and member 0's. The
// Byzantine member first sends a correctly signed COMMIT for view 7 (stored for later), then a COMMIT for view 0 whose
// header is right and whose signature is the one it made over the view-7 header. A signature is verified against the
// bytes it is presented with, every time (C08); the COMMIT is not counted and no proof with that signature in it is
// handed to the commit callback (C03).
func (w *world) replayedSignatureScript() {
	for _, n := range w.honest {
		w.sync(n, nil)
	}
	w.take(1, "PP", 0)
	w.take(2, "PP", 0)
	w.take(1, "P", 2)
	var a uint64
	for _, m := range w.history {
		if m.Kind == "PP" && m.Ref.View == 0 {
			a = m.Ref.Hash
		}
	}
	w.take(0, "P", 1)
	w.take(0, "P", 2)
	w.take(1, "C", 0)
	n1 := w.byId[1]
	if a == 0 || n1.hasCommitted(1) {
		w.rep.count("world:directed-replayed-signature-setup-failed")
		return
	}
	w.pool = nil
	w.inject(n1, &aMsg{Kind: "C", Ref: aRef{3, worldInst, 1, 7, a}, Snd: aSig{3, true}, ShareOk: true}, "byz-C-future-view")
	w.codec.replaySigs = true
	w.inject(n1, &aMsg{Kind: "C", Ref: aRef{3, worldInst, 1, 0, a}, Snd: aSig{3, false}, ShareOk: true}, "byz-C-replayed-signature")
	w.codec.replaySigs = false
}

// reproposalDuringPendingSyncScript (four correct members): member 3 is prepared on A in view 0; view 1 is elected on
// its vote and re-proposes A. Member 2's main loop has meanwhile accepted a sync to a later block that its worker has
// not taken yet - the contexts of its present position are already superseded. A NEW_VIEW that re-proposes a locked
// block needs no consumer call and therefore no context: member 2, still in view 0 of the height, adopts it (C11).
func (w *world) reproposalDuringPendingSyncScript() {
	for _, n := range w.honest {
		w.sync(n, nil)
	}
	w.take(2, "PP", 0)
	w.take(3, "PP", 0)
	w.take(3, "P", 2)
	w.pool = nil
	for _, id := range []uint64{3, 0, 1} {
		w.election(w.byId[id], 1, 0)
	}
	w.takeV(1, "VC", 3, 1)
	w.takeV(1, "VC", 0, 1)
	n2 := w.byId[2]
	w.splitSyncs, w.forceSplit = true, true
	w.sync(n2, &aBlock{Height: 5, Id: 2999985})
	w.splitSyncs, w.forceSplit = false, false
	if w.pendingSync[2] == nil {
		w.rep.count("world:directed-reproposal-during-pending-sync-setup-failed")
		return
	}
	if !w.takeV(2, "NV", 1, 1) {
		w.rep.count("world:directed-reproposal-during-pending-sync-setup-failed")
	}
	w.flushSync(n2)
}

// preparedThenFreshNewViewScript (four correct members): member 3 is prepared on A in view 0; the others are not and
// elect member 1 for view 1 without member 3's vote, so the NEW_VIEW carries no proof and proposes a fresh block B.
// Member 3 follows it (a valid NEW_VIEW), view 1 goes nowhere, member 3 times out: its vote for view 2 still carries
// its proof of (view 0, A) - following a view does not unlock (C09, C01).
func (w *world) preparedThenFreshNewViewScript() {
	for _, n := range w.honest {
		w.sync(n, nil)
	}
	w.take(2, "PP", 0)
	w.take(3, "PP", 0)
	w.take(3, "P", 2)
	w.pool = nil
	for _, id := range []uint64{0, 2, 1} {
		w.election(w.byId[id], 1, 0)
	}
	w.takeV(1, "VC", 0, 1)
	w.takeV(1, "VC", 2, 1)
	if !w.takeV(3, "NV", 1, 1) {
		w.rep.count("world:directed-prepared-then-fresh-new-view-setup-failed")
		return
	}
	w.pool = nil
	w.election(w.byId[3], 1, 1)
}

// borrowedShareScript (member 3 Byzantine): member 1 is prepared on A and holds its own COMMIT and member 0's (whose
// random-seed share it has verified). The Byzantine member's COMMIT has a correctly signed header and carries member
// 0's share. A share counts for the member it was made by (C08: COMMIT with a valid random-seed share): the COMMIT is
// not counted, and no proof with that share in it reaches the commit callback (C03).
func (w *world) borrowedShareScript() {
	for _, n := range w.honest {
		w.sync(n, nil)
	}
	w.take(1, "PP", 0)
	w.take(2, "PP", 0)
	w.take(1, "P", 2)
	var a uint64
	for _, m := range w.history {
		if m.Kind == "PP" && m.Ref.View == 0 {
			a = m.Ref.Hash
		}
	}
	w.take(0, "P", 1)
	w.take(0, "P", 2)
	w.take(1, "C", 0)
	n1 := w.byId[1]
	if a == 0 || n1.hasCommitted(1) {
		w.rep.count("world:directed-borrowed-share-setup-failed")
		return
	}
	w.pool = nil
	owner := uint64(0)
	w.codec.replaySigs, w.codec.borrowShareOf = true, &owner
	w.inject(n1, &aMsg{Kind: "C", Ref: aRef{3, worldInst, 1, 0, a}, Snd: aSig{3, true}, ShareOk: false}, "byz-C-borrowed-share")
	w.codec.replaySigs, w.codec.borrowShareOf = false, nil
}

// commitHashFloodScript (member 3 Byzantine): before anything else member 1 receives five COMMITs of the Byzantine
// member for view 0, each for another made-up hash (all correctly signed, with its genuine share). Then the view runs
// its course. What one member sent for other hashes does not stand in the way of the COMMITs of correct members for
// the proposal: they are counted and member 1 commits (C11, C05).
func (w *world) commitHashFloodScript() {
	for _, n := range w.honest {
		w.sync(n, nil)
	}
	for k := uint64(0); k < 5; k++ {
		w.inject(w.byId[1], &aMsg{Kind: "C", Ref: aRef{3, worldInst, 1, 0, 2999900 + k}, Snd: aSig{3, true}, ShareOk: true}, "byz-C-made-up-hash")
	}
	w.take(1, "PP", 0)
	w.take(2, "PP", 0)
	for _, x := range [][2]uint64{{0, 1}, {0, 2}, {1, 2}, {2, 1}} {
		w.take(x[0], "P", x[1])
	}
	for _, x := range [][2]uint64{{1, 0}, {1, 2}, {0, 1}, {0, 2}, {2, 0}, {2, 1}} {
		w.take(x[0], "C", x[1])
	}
	if !w.byId[1].hasCommitted(1) {
		w.rep.finding("C11", "honest-commit-not-counted", "node 1 received five COMMITs of a Byzantine member for made-up hashes and then the proposal, the PREPAREs and the COMMITs of both other correct members: it did not commit", w.traceInput())
	}
}

func (w *world) kf1ForkScript() {
	for _, n := range w.honest {
		w.sync(n, nil)
	}
	// view 0: correct leader 0 proposes A; 2 and 3 prepare; 0 and 2 become prepared; 0 commits with the help of Byzantine 1
	w.take(2, "PP", 0)
	w.take(3, "PP", 0)
	w.take(0, "P", 2)
	w.take(0, "P", 3)
	w.take(2, "P", 3)
	var a uint64
	for _, m := range w.history {
		if m.Kind == "PP" {
			a = m.Ref.Hash
		}
	}
	w.take(0, "C", 2)
	w.inject(w.byId[0], &aMsg{Kind: "C", Ref: aRef{3, worldInst, 1, 0, a}, Snd: aSig{1, true}, ShareOk: true}, "byz-C")
	// 2 and 3 time out and move to view 1 (2 is locked on A and says so in its vote to the Byzantine leader 1)
	w.election(w.byId[2], 1, 0)
	w.election(w.byId[3], 1, 0)
	// the Byzantine leader of view 1 sends a standalone PREPREPARE for another block
	evil := &aBlock{Height: 1, Id: 2999999}
	for _, id := range []uint64{2, 3} {
		w.inject(w.byId[id], &aMsg{Kind: "PP", Ref: aRef{1, worldInst, 1, 1, evil.Id}, Snd: aSig{1, true}, Block: evil}, "byz-standalone-preprepare-view1")
	}
	w.takeV(2, "P", 3, 1)
	w.takeV(3, "P", 2, 1)
	w.takeV(2, "C", 3, 1)
	w.takeV(3, "C", 2, 1)
	for _, id := range []uint64{2, 3} {
		w.inject(w.byId[id], &aMsg{Kind: "C", Ref: aRef{3, worldInst, 1, 1, evil.Id}, Snd: aSig{1, true}, ShareOk: true}, "byz-C")
	}
}
