package main

// filter engine: the real RawMessageFilter + real State with a recording handler that can start the next
// height from inside a delivery (as a committing term does) — C17.

import (
	"fmt"
	"math/rand"
	"path/filepath"

	"github.com/orbs-network/lean-helix-go/services/interfaces"
	L "github.com/orbs-network/lean-helix-go/services/logger"
	"github.com/orbs-network/lean-helix-go/services/messagesfactory"
	"github.com/orbs-network/lean-helix-go/services/rawmessagesfilter"
	"github.com/orbs-network/lean-helix-go/spec/types/go/primitives"
	"github.com/orbs-network/lean-helix-go/state"
)

func init() { engines["filter"] = runFilter }

type fop struct {
	Recv                         bool
	Height, Inst, Sender, Tag    uint64
	Trigger                      bool
	Adv                          uint64
}

func (o fop) coq() string {
	if o.Recv {
		return fmt.Sprintf("FReceive (FM %d %d %d %d %s)", o.Height, o.Inst, o.Sender, o.Tag, cBool(o.Trigger))
	}
	return fmt.Sprintf("FAdvance %d", o.Adv)
}

type filterWorld struct {
	st       *state.State
	filter   *rawmessagesfilter.RawMessageFilter
	out      [][2]uint64 // (handler term, tag)
	outMsgs  []fop
	trig     map[uint64]bool // tag -> trigger
	byTag    map[uint64]fop
	log      []fev // what happened, in order: receptions, rounds started, deliveries
	cur      uint64
}

type fev struct {
	kind string // "recv", "start", "deliver"
	h    uint64 // recv: node height at reception; start: the height started; deliver: the term
	tag  uint64
}

type recHandler struct {
	w         *filterWorld
	term      uint64
	committed bool
}

func (h *recHandler) HandleConsensusMessage(m interfaces.ConsensusMessage) error {
	tag := uint64(m.View())
	h.w.out = append(h.w.out, [2]uint64{h.term, tag})
	h.w.log = append(h.w.log, fev{"deliver", h.term, tag})
	if h.w.trig[tag] && !h.committed {
		h.committed = true
		h.w.advance(h.term + 1)
	}
	return nil
}

func (w *filterWorld) advance(h uint64) {
	if _, err := w.st.SetHeightAndResetView(primitives.BlockHeight(h)); err != nil {
		return
	}
	w.cur = h
	w.log = append(w.log, fev{"start", h, 0})
	w.filter.ConsumeCacheMessages(&recHandler{w: w, term: h})
}

const filterMe = 7
const filterInst = 5

func runFilterSeq(kr *keyring, ops []fop, rep *Report) string {
	st := state.NewState()
	cfg := &interfaces.Config{Membership: &membership{me: idBytes(filterMe)}}
	lg := L.NewLhLogger(cfg, st)
	w := &filterWorld{st: st, trig: map[uint64]bool{}, byTag: map[uint64]fop{}}
	w.filter = rawmessagesfilter.NewConsensusMessageFilter(primitives.InstanceId(filterInst), idBytes(filterMe), lg, st)
	type pending struct {
		op        fop
		atHeight  uint64
		pos       int
	}
	recvAt := map[uint64]int{}
	for i, o := range ops {
		if o.Recv {
			w.trig[o.Tag] = o.Trigger
			w.byTag[o.Tag] = o
			recvAt[o.Tag] = i
			w.log = append(w.log, fev{"recv", w.cur, o.Tag})
			mf := messagesfactory.NewMessageFactory(primitives.InstanceId(o.Inst), &keyManager{kr, idBytes(o.Sender)}, idBytes(o.Sender), 0)
			pm := mf.CreatePrepareMessage(primitives.BlockHeight(o.Height), primitives.View(o.Tag), hashToken(1))
			w.filter.HandleConsensusRawMessage(pm.ToConsensusRawMessage())
		} else {
			w.advance(o.Adv)
		}
	}
	// monitor (property C17, evaluated on the implementation's own trace)
	seen := map[uint64]int{}
	for _, d := range w.out {
		m := w.byTag[d[1]]
		seen[d[1]]++
		if m.Height != d[0] {
			rep.finding("C17", "delivered-to-another-height", fmt.Sprintf("message of height %d (tag %d) delivered to the term of height %d", m.Height, m.Tag, d[0]), ops)
		}
		if m.Inst != filterInst {
			rep.finding("C17", "foreign-instance-delivered", fmt.Sprintf("tag %d instance %d", m.Tag, m.Inst), ops)
		}
		if m.Sender == filterMe {
			rep.finding("C17", "own-message-delivered", fmt.Sprintf("tag %d", m.Tag), ops)
		}
		if seen[d[1]] > 1 {
			rep.finding("C17", "delivered-twice", fmt.Sprintf("tag %d", m.Tag), ops)
		}
	}
	// completeness: a proper message for a future height H is delivered when the node starts H, unless a proper message
	// for a height above H was received before the node started H, or an earlier-received message of H made the node
	// commit and leave H while the cache was being consumed
	proper := func(m fop) bool { return m.Inst == filterInst && m.Sender != filterMe }
	for i, e := range w.log {
		if e.kind != "recv" {
			continue
		}
		m := w.byTag[e.tag]
		if !proper(m) || m.Height <= e.h {
			continue
		}
		startAt := -1
		for j := i + 1; j < len(w.log); j++ {
			if w.log[j].kind == "start" && w.log[j].h >= m.Height {
				if w.log[j].h == m.Height {
					startAt = j
				}
				break
			}
		}
		if startAt < 0 {
			continue
		}
		excused := false
		for j := 0; j < startAt; j++ {
			if w.log[j].kind == "recv" {
				o := w.byTag[w.log[j].tag]
				if proper(o) && o.Height > w.log[j].h && o.Height > m.Height {
					excused = true // the cache had moved on to a later height
				}
				if j < i && proper(o) && o.Height == m.Height && o.Height > w.log[j].h && o.Trigger {
					excused = true // an earlier message of H completes H while the cache is consumed
				}
			}
		}
		if excused {
			continue
		}
		delivered := false
		for j := startAt; j < len(w.log); j++ {
			if w.log[j].kind == "deliver" && w.log[j].tag == e.tag && w.log[j].h == m.Height {
				delivered = true
			}
		}
		if !delivered {
			rep.finding("C17", "cached-message-not-delivered", fmt.Sprintf("message tag %d for height %d, received at height %d, was not delivered when the node started height %d", m.Tag, m.Height, e.h, m.Height), ops)
		}
		rep.count("monitor:cached-message-due")
	}
	// order: deliveries of one height respect arrival order
	lastPos := map[uint64]int{}
	for _, d := range w.out {
		p := recvAt[d[1]]
		if lp, ok := lastPos[d[0]]; ok && p < lp {
			rep.finding("C17", "delivered-out-of-arrival-order", fmt.Sprintf("height %d: tag %d delivered after a later-received message", d[0], d[1]), ops)
		}
		lastPos[d[0]] = p
	}
	cops := make([]string, len(ops))
	for i, o := range ops {
		cops[i] = o.coq()
	}
	obs := make([]string, len(w.out))
	for i, d := range w.out {
		obs[i] = fmt.Sprintf("(%d, %d)", d[0], d[1])
	}
	if len(w.out) > 0 {
		rep.count("sequences-with-deliveries")
	}
	return fmt.Sprintf("(%d, %d, %s, %s)", filterMe, filterInst, cList(cops), cList(obs))
}

func runFilter(cfg *runCfg) error {
	r := rand.New(rand.NewSource(cfg.seed))
	rep := newReport("filter", cfg)
	kr := newKeyring(cfg.seed)
	var cases []string
	// exhaustive: all sequences of exactly `depth` ops over a small alphabet
	var alphabet []fop
	for h := uint64(1); h <= 3; h++ {
		alphabet = append(alphabet, fop{Recv: true, Height: h, Inst: filterInst, Sender: 1}, fop{Recv: true, Height: h, Inst: filterInst, Sender: 1, Trigger: true}, fop{Adv: h})
	}
	alphabet = append(alphabet, fop{Recv: true, Height: 2, Inst: filterInst + 1, Sender: 1}, fop{Recv: true, Height: 2, Inst: filterInst, Sender: filterMe})
	depth := 4
	if cfg.tier == "thorough" {
		depth = 5
	}
	var rec func(prefix []fop)
	rec = func(prefix []fop) {
		if len(prefix) == depth {
			seq := make([]fop, len(prefix))
			copy(seq, prefix)
			for i := range seq {
				seq[i].Tag = uint64(i + 1)
			}
			cases = append(cases, runFilterSeq(kr, seq, rep))
			rep.sample(seq, 2)
			return
		}
		for _, o := range alphabet {
			rec(append(prefix, o))
		}
	}
	rec(nil)
	exh := len(cases)
	rep.Distribution[fmt.Sprintf("exhaustive-depth-%d", depth)] = exh
	nr := 500
	if cfg.tier == "thorough" {
		nr = 6000
	}
	for i := 0; i < nr; i++ {
		n := 6 + r.Intn(40)
		ops := make([]fop, 0, n)
		cur := uint64(0)
		for j := 0; j < n; j++ {
			if r.Intn(5) == 0 {
				var a uint64
				switch r.Intn(6) {
				case 0:
					a = cur // stale
				case 1:
					a = cur + 2 + uint64(r.Intn(2)) // jump
				default:
					a = cur + 1
				}
				if a > cur {
					cur = a
				}
				ops = append(ops, fop{Adv: a})
				rep.count("op:advance")
			} else {
				h := cur
				switch r.Intn(8) {
				case 0:
					if cur > 0 {
						h = cur - 1
					}
				case 1, 2, 3:
					h = cur + 1
				case 4:
					h = cur + 2 + uint64(r.Intn(2))
				}
				o := fop{Recv: true, Height: h, Inst: filterInst, Sender: uint64(1 + r.Intn(3)), Tag: uint64(j + 1), Trigger: r.Intn(4) == 0}
				if r.Intn(12) == 0 {
					o.Inst++
				}
				if r.Intn(12) == 0 {
					o.Sender = filterMe
				}
				ops = append(ops, o)
				rep.count("op:receive")
				if o.Trigger {
					rep.count("op:receive-trigger")
					// triggers move the height when delivered; track conservatively (cur may lag behind, fine)
				}
			}
		}
		cases = append(cases, runFilterSeq(kr, ops, rep))
		rep.sample(ops, 4)
	}
	rep.Evaluations = len(cases)
	rep.DistinctNontr = rep.Distribution["sequences-with-deliveries"]
	rep.Rule = fmt.Sprintf("all %d sequences of exactly %d ops over {receive(h, plain|commit-trigger), advance(h) : h=1..3} + foreign instance + own sender (exhaustive for that depth), plus %d random sequences of 6..45 ops with stale/next/jump advances and re-entrant (commit inside delivery) handlers; sequences are pairwise distinct; non-trivial = at least one delivery", exh, depth, nr)
	cf := newCaseFile("From LH Require Import Prims Filter Corr.\nOpen Scope N_scope.")
	cf.addShards("fc", "fcase", "f_ok", cases, 1000)
	p := filepath.Join(cfg.outDir, "cases_filter.v")
	if err := cf.write(p); err != nil {
		return err
	}
	rep.CaseFiles = []string{p}
	return rep.write(cfg.outDir)
}
