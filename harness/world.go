package main

// world engine: N real nodes (the real WorkerLoop driven synchronously through the verif hooks) with SPI fakes,
// a deterministic scheduler (deliveries, duplicates, drops, elections, syncs), field-by-field mutations of
// real traffic, Byzantine strategies built from Byzantine keys plus replayed honest signatures, and global
// property monitors. Every honest node's event sequence, outputs and state are written as a Coq case and
// replayed through the Gallina node model (Term.v).

import (
	"context"
	"errors"
	"fmt"
	"math/rand"
	"os"
	"path/filepath"
	"runtime/debug"
	"sort"
	"strings"
	"time"

	leanhelix "github.com/orbs-network/lean-helix-go"
	"github.com/orbs-network/lean-helix-go/services/interfaces"
	"github.com/orbs-network/lean-helix-go/services/storage"
	"github.com/orbs-network/lean-helix-go/spec/types/go/primitives"
	"github.com/orbs-network/lean-helix-go/spec/types/go/protocol"
	"github.com/orbs-network/scribe/log"
)

func init() {
	engines["world"] = func(cfg *runCfg) error { return runWorldMode(cfg, "world", false) }
	// the known-finding stream: Byzantine leaders also send standalone PREPREPAREs in views above 0 (KF-1)
	engines["worldkf1"] = func(cfg *runCfg) error { return runWorldMode(cfg, "worldkf1", true) }
	// the same worlds over a consumer that accepts a missing block. The model's consumer does not (validProposal None =
	// false), so these runs are judged by the monitors alone (C12: no panic, no wedge) and produce no Coq cases.
	engines["worldnil"] = func(cfg *runCfg) error { return runWorldModeX(cfg, "worldnil", false, false) }
}

const worldInst = 7

// ---- election scheduler fake ----
type recScheduler struct {
	node       *simNode
	cb         func(h primitives.BlockHeight, v primitives.View, cb interfaces.OnElectionCallback)
	armH, armV uint64
	armed      bool
	ch         chan *interfaces.ElectionTrigger
}

func (s *recScheduler) RegisterOnElection(h primitives.BlockHeight, v primitives.View, cb func(primitives.BlockHeight, primitives.View, interfaces.OnElectionCallback)) {
	s.cb = cb
	s.armH, s.armV, s.armed = uint64(h), uint64(v), true
	s.node.outs = append(s.node.outs, fmt.Sprintf("OArm %d %d", uint64(h), uint64(v)))
}
func (s *recScheduler) ElectionChannel() chan *interfaces.ElectionTrigger { return s.ch }
func (s *recScheduler) CalcTimeout(v primitives.View) time.Duration       { return time.Second }
func (s *recScheduler) Stop() {
	s.cb = nil
	s.armed = false
	s.node.outs = append(s.node.outs, "OStop")
}

// ---- per-node SPI ----
type nodeBlockUtils struct{ node *simNode }

func (b *nodeBlockUtils) RequestNewBlockProposal(ctx context.Context, h primitives.BlockHeight, me primitives.MemberId, prev interfaces.Block) (interfaces.Block, primitives.BlockHash) {
	n := b.node
	blk := &vblock{height: h, id: 1000000 + n.id*1000 + n.fresh}
	n.fresh++
	n.w.codec.registerBlock(blk)
	n.w.proposedBy[blk.id] = n.id
	return blk, blockHash(blk)
}
func (b *nodeBlockUtils) ValidateBlockProposal(ctx context.Context, h primitives.BlockHeight, leader primitives.MemberId, block interfaces.Block, hash primitives.BlockHash, prev interfaces.Block) error {
	vb, _ := block.(*vblock)
	n := b.node
	if block == nil || vb == nil {
		if n.w.nilOK {
			return nil // a lenient consumer: a missing block is "nothing to object to"
		}
		return errors.New("nil block")
	}
	ok := vb.bad&(1<<n.id) == 0 && vb.height == h && string(blockHash(vb)) == string(hash)
	if ok {
		n.w.validatedBy[vb.id] = append(n.w.validatedBy[vb.id], n.id)
		return nil
	}
	if vb.id%2 == 1 {
		// a consumer that gives a validation a budget of its own and reports overrunning it with the standard error: a
		// rejection like any other (the library's own context is alive)
		return context.DeadlineExceeded
	}
	return errors.New("invalid proposal")
}
func (b *nodeBlockUtils) ValidateBlockCommitment(h primitives.BlockHeight, block interfaces.Block, hash primitives.BlockHash) bool {
	vb, _ := block.(*vblock)
	if block == nil || vb == nil {
		return b.node.w.nilOK
	}
	return vb.height == h && string(blockHash(vb)) == string(hash)
}

type simNode struct {
	w                      *world
	id                     uint64 // member id token = index in the base committee
	vn                     *leanhelix.VerifNode
	sched                  *recScheduler
	outs                   []string // Coq outputs of the event in progress
	steps                  []string // Coq tsteps
	fresh                  uint64
	commits                []commitRec
	rounds                 []uint64
	hvs                    [][2]uint64
	sentLog                []*aMsg // everything this node sent (abstract, exact)
	curSent                []*aMsg
	stored, storedBefore   map[string]bool
	storedPP, storedPPPrev map[string]bool
	panicked               bool
	curWellFormed          bool   // the event in progress delivers a message the harness decoded completely
	swallowed              string // a panic the worker's guard swallowed during it
	duringCommit           func()  // runs once inside the next commit callback (the main loop acting meanwhile)
	untracked              bool    // the node went through an interleaving the sequential model has no event for: monitors only from then on
	aheadNV                []*aMsg // NEW_VIEWs delivered to this node for a height it had not reached yet
}

type commitRec struct {
	height uint64
	view   uint64
	block  *aBlock
	proof  []byte
}

type pend struct {
	genuine bool
	to      uint64
	msg     *aMsg
	raw     *interfaces.ConsensusRawMessage
}

type world struct {
	r             *rand.Rand
	ord           *rand.Rand // order of the lists the storage wrapper returns
	rep           *Report
	kr            *keyring
	codec         *codec
	n             int
	weights       []uint64
	rot           uint64
	byz           map[uint64]bool
	honest        []*simNode
	byId          map[uint64]*simNode
	pool          []pend
	history       []*aMsg         // every message ever put on the network (abstract, exact order)
	signed        map[string]bool // (signer|content) pairs genuinely signed by honest members
	proposedBy    map[uint64]uint64
	validatedBy   map[uint64][]uint64
	byzBlocks     uint64
	failCommit    map[uint64][]uint64 // node -> heights
	excl          map[uint64][]uint64
	trace         []string           // human-readable schedule (for replay files)
	splitSyncs    bool               // syncs may be split into the main loop's half and the worker's half with other events in between
	pendingSync   map[uint64]*pendSync
	forceSplit    bool
	failSend      string             // message kind whose sends the transport reports as failed ("" = a pseudo-random fifth of all sends, "-" = none)
	nilOK         bool               // lenient consumer: ValidateBlockProposal / ValidateBlockCommitment accept a missing block (monitors only, no model)
	kf1           bool               // standalone PREPREPARE in view>0 stream enabled
	kf1Adopted    bool               // some correct node adopted a standalone PREPREPARE in a view above 0 in this world
	chain         map[uint64]*aBlock // committed block per height (first commit seen)
	held          map[uint64]bool    // nodes whose inbox is currently held back
	syncBlocks    map[uint64]*aBlock // last block a member was synced to, per height
	slowCommits   bool
	slowUntilView uint64
}

func (w *world) committeeAt(h uint64, forNode uint64) []interfaces.CommitteeMember {
	k := int((h * w.rot) % uint64(w.n))
	var ms []interfaces.CommitteeMember
	for j := 0; j < w.n; j++ {
		i := uint64((k + j) % w.n)
		ms = append(ms, interfaces.CommitteeMember{Id: idBytes(i), Weight: primitives.MemberWeight(w.weights[i])})
	}
	for _, eh := range w.excl[forNode] {
		if eh == h {
			var f []interfaces.CommitteeMember
			for _, m := range ms {
				if memberTok(m.Id) != forNode {
					f = append(f, m)
				}
			}
			return f
		}
	}
	return ms
}
func (w *world) leaderAt(h, v uint64) uint64 {
	k := (h * w.rot) % uint64(w.n)
	return (k + v%uint64(w.n)) % uint64(w.n)
}
func (w *world) totalWeight() uint64 {
	t := uint64(0)
	for _, x := range w.weights {
		t += x
	}
	return t
}
func (w *world) fBound() uint64 { return (w.totalWeight() - 1) / 3 }
func (w *world) quorum() uint64 { return w.totalWeight() - w.fBound() }

func (w *world) newNode(id uint64) *simNode {
	n := &simNode{w: w, id: id, stored: map[string]bool{}, storedBefore: map[string]bool{}, storedPP: map[string]bool{}, storedPPPrev: map[string]bool{}}
	n.sched = &recScheduler{node: n, ch: make(chan *interfaces.ElectionTrigger)}
	cfg := &interfaces.Config{
		InstanceId:              worldInst,
		Communication:           &orderedComm{n},
		Membership:              &membership{me: idBytes(id), committee: func(h primitives.BlockHeight) []interfaces.CommitteeMember { return w.committeeAt(uint64(h), id) }},
		BlockUtils:              &nodeBlockUtils{n},
		KeyManager:              &keyManager{w.kr, idBytes(id)},
		OverrideElectionTrigger: n.sched,
		Storage:                 &recStorage{storage.NewInMemoryStorage(), n},
		Logger:                  &recLogger{n},
	}
	n.vn = leanhelix.VerifNewNode(cfg, n.onCommit, n.onNewRound)
	return n
}

// recLogger: the worker's guard around the handling of a message swallows a panic and says so in the log. For bytes the
// readers cannot read that is the intended outcome; for a message the harness's own decoder read completely it means a
// handler crashed on well-formed input (C12) - the event in progress tells which.
type recLogger struct{ n *simNode }

func (l *recLogger) Debug(format string, args ...interface{})           {}
func (l *recLogger) Error(format string, args ...interface{})           {}
func (l *recLogger) ConsensusTrace(format string, fields ...*log.Field) {}
func (l *recLogger) Info(format string, args ...interface{}) {
	if strings.Contains(format, "MALFORMED MESSAGE IGNORED - ") && l.n.curWellFormed {
		l.n.swallowed = fmt.Sprintf(format, args...)
	}
}

func (n *simNode) onCommit(ctx context.Context, block interfaces.Block, proofBytes []byte) error {
	w := n.w
	ab := absBlock(block)
	pr := protocol.BlockProofReader(proofBytes)
	ref := pr.BlockRef()
	aref := w.codec.decRef(ref)
	var signers []aSig
	it := pr.NodesIterator()
	for it.HasNext() {
		signers = append(signers, w.codec.decSig(ref.BlockHeight(), ref.Raw(), it.NextNodes()))
	}
	sort.SliceStable(signers, func(i, j int) bool { return signers[i].Id < signers[j].Id })
	seedOk := string(pr.RandomSeedSignature()) == string(w.codec.seedSig(uint64(ref.BlockHeight())))
	n.outs = append(n.outs, fmt.Sprintf("OCommit %s %s %s %s", ab.coqBare(), aref.coq(), coqSigs(signers), cBool(seedOk)))
	cp := make([]byte, len(proofBytes))
	copy(cp, proofBytes)
	n.commits = append(n.commits, commitRec{ab.Height, aref.View, ab, cp})
	w.onCommitMonitors(n, ab, aref, signers, cp)
	if n.duringCommit != nil { // the main loop acts while the worker is inside the commit callback
		f := n.duringCommit
		n.duringCommit = nil
		f()
	}
	for _, fh := range w.failCommit[n.id] {
		if fh == ab.Height {
			return errors.New("scripted commit failure")
		}
	}
	return nil
}

func (n *simNode) onNewRound(ctx context.Context, h primitives.BlockHeight, prev interfaces.Block, lead bool) {
	n.outs = append(n.outs, fmt.Sprintf("ONewRound %d %s %s", uint64(h), absBlock(prev).coq(), cBool(lead)))
	n.rounds = append(n.rounds, uint64(h))
}

func (n *simNode) obs() string {
	st := n.vn.State()
	t := "None"
	if tic := n.vn.Term(); tic != nil {
		pv, ok := tic.VerifPreparedView()
		p := "None"
		if ok {
			p = fmt.Sprintf("(Some %d)", uint64(pv))
		}
		t = fmt.Sprintf("(Some (%s, %d, %s))", p, uint64(tic.VerifLatestViewProcessed()), cBool(tic.VerifCommitted()))
	}
	return fmt.Sprintf("(%d, %d, %s, %s)", uint64(st.Height()), uint64(st.View()), cBool(n.vn.HasTerm()), t)
}

// apply runs one event on the real node, records the Coq tstep, routes what the node sent, runs the monitors.
func (n *simNode) apply(evCoq string, desc string, ev evInfo, f func()) {
	w := n.w
	n.outs = nil
	n.curSent = nil
	bf := n.before()
	n.storedBefore = map[string]bool{}
	for k := range n.stored {
		n.storedBefore[k] = true
	}
	n.storedPPPrev = map[string]bool{}
	for k := range n.storedPP {
		n.storedPPPrev[k] = true
	}
	n.curWellFormed, n.swallowed = ev.kind == "deliver" && ev.msg != nil, ""
	defer func() {
		if n.swallowed != "" {
			w.rep.finding("C12", "handler-panicked-on-well-formed-message", fmt.Sprintf("node %d: a panic was swallowed while handling %s: %s", n.id, desc, n.swallowed), w.traceInput())
		}
		n.curWellFormed = false
	}()
	func() {
		defer func() {
			if e := recover(); e != nil {
				n.outs = append(n.outs, "OPanic")
				n.panicked = true
				if os.Getenv("LHV_STACK") != "" {
					fmt.Fprintf(os.Stderr, "panic in %s: %v\n%s\n", desc, e, debug.Stack())
					for _, t := range w.trace {
						if strings.HasPrefix(t, fmt.Sprintf("node %d:", n.id)) && (strings.Contains(t, "garbage") || strings.Contains(t, "VC h=2")) {
							fmt.Fprintln(os.Stderr, "  TRACE", t)
						}
					}
				}
				w.rep.finding("C12", "node-panicked", fmt.Sprintf("node %d panicked on %s: %v", n.id, desc, e), w.traceInput())
			}
		}()
		f()
	}()
	w.trace = append(w.trace, fmt.Sprintf("node %d: %s", n.id, desc))
	if !n.untracked {
		n.steps = append(n.steps, fmt.Sprintf("(%s, %s, %s)", evCoq, cList(n.outs), n.obs()))
	}
	st := n.vn.State()
	n.hvs = append(n.hvs, [2]uint64{uint64(st.Height()), uint64(st.View())})
	w.afterEvent(n, ev, bf, n.outs, n.curSent)
}

// hooked communication: record in order with the other outputs
type orderedComm struct{ node *simNode }

func (c *orderedComm) SendConsensusMessage(ctx context.Context, recipients []primitives.MemberId, raw *interfaces.ConsensusRawMessage) error {
	n := c.node
	w := n.w
	m := w.codec.decode(raw)
	if m == nil {
		w.rep.finding("C20", "sent-message-does-not-parse", fmt.Sprintf("node %d sent bytes its own reader does not parse", n.id), w.traceInput())
		return nil
	}
	to := make([]uint64, len(recipients))
	for i, r := range recipients {
		to[i] = memberTok(r)
	}
	if m.Kind == "VC" && len(w.excl[n.id]) == 0 && (len(to) != 1 || to[0] != w.leaderAt(m.height(), m.view())) {
		w.rep.finding("C18", "view-change-sent-to-wrong-member", fmt.Sprintf("node %d sent its VIEW_CHANGE for (h=%d, v=%d) to %v; the leader of that view is member %d", n.id, m.height(), m.view(), to, w.leaderAt(m.height(), m.view())), w.traceInput())
	}
	n.outs = append(n.outs, fmt.Sprintf("OSend %s %s", cListN(to), canon(m).coq()))
	n.sentLog = append(n.sentLog, m)
	n.curSent = append(n.curSent, m)
	w.noteSigned(m, n.id)
	w.sendMonitors(n, m, raw)
	w.history = append(w.history, m)
	for _, t := range to {
		if _, ok := w.byId[t]; ok {
			w.pool = append(w.pool, pend{true, t, m, raw})
		}
	}
	// the transport may report a failure although the message went out (or reached some of the recipients): what the
	// node did by sending is done, nothing may be redone because of the error
	if w.failSend == m.Kind || (w.failSend == "" && w.ord.Intn(5) == 0) {
		w.rep.count("send-reported-as-failed:" + m.Kind)
		return errors.New("transport: delivery not confirmed")
	}
	return nil
}

func (w *world) traceInput() interface{} {
	t := w.trace
	if len(t) > 400 {
		t = t[len(t)-400:]
	}
	return map[string]interface{}{"weights": fmt.Sprint(w.weights), "rot": w.rot, "byzantine": fmt.Sprint(keysOf(w.byz)), "schedule_tail": t}
}
func keysOf(m map[uint64]bool) []uint64 {
	var k []uint64
	for x := range m {
		k = append(k, x)
	}
	sort.Slice(k, func(i, j int) bool { return k[i] < k[j] })
	return k
}

// ---- events ----
func (w *world) deliver(n *simNode, m *aMsg, raw *interfaces.ConsensusRawMessage) {
	w.deliverG(n, m, raw, false)
}
func (w *world) deliverG(n *simNode, m *aMsg, raw *interfaces.ConsensusRawMessage, genuine bool) {
	n.apply("EDeliver "+m.coq(), fmt.Sprintf("deliver %s h=%d v=%d from %d: %s", m.Kind, m.height(), m.view(), m.sender(), m.coq()), evInfo{kind: "deliver", msg: m, genuine: genuine}, func() { n.vn.Deliver(raw) })
	w.rep.count("event:deliver-" + m.Kind)
}
func (w *world) election(n *simNode, h, v uint64) {
	n.apply(fmt.Sprintf("EElection %d %d", h, v), fmt.Sprintf("election (%d,%d)", h, v), evInfo{kind: "election", h: h, v: v}, func() {
		cb := n.sched.cb
		var f func()
		if cb != nil {
			f = func() { cb(primitives.BlockHeight(h), primitives.View(v), nil) }
		}
		n.vn.Election(primitives.BlockHeight(h), primitives.View(v), f)
	})
	w.rep.count("event:election")
}
func (w *world) sync(n *simNode, b *aBlock) {
	var blk interfaces.Block
	var h uint64
	if b != nil {
		blk = w.codec.mkBlock(b)
		h = b.Height
		if w.syncBlocks == nil {
			w.syncBlocks = map[uint64]*aBlock{}
		}
		w.syncBlocks[h] = b
	}
	w.flushSync(n)
	if w.splitSyncs && (w.forceSplit || w.r.Intn(3) == 0) {
		// the two loops: the main loop accepts the block now, the worker takes it from its channel some events later
		var accepted bool
		n.apply("ESyncMain "+b.coq(), fmt.Sprintf("main loop accepts a sync to block of height %d", h), evInfo{kind: "syncmain"}, func() { accepted = n.vn.SyncMainHalf(blk) })
		w.rep.count("event:sync-main-half")
		if accepted {
			if w.pendingSync == nil {
				w.pendingSync = map[uint64]*pendSync{}
			}
			w.pendingSync[n.id] = &pendSync{b, blk, h}
		}
		return
	}
	n.apply("ESync "+b.coq(), fmt.Sprintf("sync to block of height %d", h), evInfo{kind: "sync"}, func() { n.vn.Sync(blk, w.codec.syncProof(h)) })
	w.rep.count("event:sync")
}

type pendSync struct {
	b   *aBlock
	blk interfaces.Block
	h   uint64
}

// flushSync: the worker takes the block the main loop accepted earlier (if any) from its channel
func (w *world) flushSync(n *simNode) {
	ps := w.pendingSync[n.id]
	if ps == nil {
		return
	}
	delete(w.pendingSync, n.id)
	n.apply("ESyncWorker "+ps.b.coq(), fmt.Sprintf("worker applies the sync to block of height %d", ps.h), evInfo{kind: "sync"}, func() { n.vn.SyncWorkerHalf(ps.blk, w.codec.syncProof(ps.h)) })
	w.rep.count("event:sync-worker-half")
}

// ---- signatures bookkeeping (unforgeability discipline of the generators) ----
func refKey(r aRef) string { return r.coq() }
func voteKey(v aVote) string {
	return fmt.Sprintf("V %d %d %d %d %s", v.Type, v.Inst, v.Height, v.View, v.Proof.coq())
}
func nvKey(m *aMsg) string {
	vs := make([]string, len(m.Votes))
	for i, v := range m.Votes {
		vs[i] = v.coq()
	}
	return fmt.Sprintf("NV %d %d %d %d %s", m.NVType, m.NVInst, m.NVHeight, m.NVView, strings.Join(vs, ";"))
}
func sk(id uint64, key string) string { return fmt.Sprintf("%d|%s", id, key) }

// noteSigned records every (signer, content) pair with a valid signature occurring in a message put on the
// network by `from` — honest nodes only emit genuine or relayed-verified signatures.
func (w *world) noteSigned(m *aMsg, from uint64) {
	note := func(s aSig, key string) {
		if s.Ok {
			w.signed[sk(s.Id, key)] = true
		}
	}
	// a member's key is not tied to one instance: the same members run a sibling instance (id worldInst+1) in which the
	// same references get signed. Those signatures are genuine and the adversary can replay them here; what must keep
	// them out is the instance id inside the signed bytes (C08).
	sib := func(s aSig, r aRef) {
		if s.Ok && from != 9999 && r.Inst == worldInst && (r.Type == 1 || r.Type == 2 || r.Type == 3) {
			r.Inst = worldInst + 1
			w.signed[sk(s.Id, refKey(r))] = true
		}
	}
	noteProof := func(p *aProof) {
		if p == nil {
			return
		}
		note(p.PPSnd, refKey(p.PPRef))
		for _, s := range p.PSnds {
			note(s, refKey(p.PRef))
		}
	}
	switch m.Kind {
	case "PP", "P", "C":
		note(m.Snd, refKey(m.Ref))
		sib(m.Snd, m.Ref)
	case "VC":
		note(m.Vote.Snd, voteKey(*m.Vote))
		noteProof(m.Vote.Proof)
	case "NV":
		note(m.Snd, nvKey(m))
		note(m.PPSnd, refKey(m.Ref))
		for _, v := range m.Votes {
			note(v.Snd, voteKey(v))
			noteProof(v.Proof)
		}
	}
}

// fixFlags enforces unforgeability on a constructed message: a signature of an honest member may be valid only
// if that member genuinely signed exactly that content before; Byzantine members' signatures are left as chosen.
func (w *world) fixFlags(m *aMsg) {
	fix := func(s *aSig, key string) {
		if s.Ok && !w.byz[s.Id] && !w.signed[sk(s.Id, key)] {
			s.Ok = false
		}
	}
	fixProof := func(p *aProof) {
		if p == nil {
			return
		}
		fix(&p.PPSnd, refKey(p.PPRef))
		for i := range p.PSnds {
			fix(&p.PSnds[i], refKey(p.PRef))
		}
	}
	switch m.Kind {
	case "PP", "P", "C":
		fix(&m.Snd, refKey(m.Ref))
	case "VC":
		fixProof(m.Vote.Proof)
		fix(&m.Vote.Snd, voteKey(*m.Vote))
	case "NV":
		for i := range m.Votes {
			fixProof(m.Votes[i].Proof)
			fix(&m.Votes[i].Snd, voteKey(m.Votes[i]))
		}
		fix(&m.Snd, nvKey(m))
		fix(&m.PPSnd, refKey(m.Ref))
	}
	// a Byzantine-made valid signature becomes part of what exists
	w.noteSigned(m, 9999)
}

// inject: encode an abstract message (after fixFlags), check that it decodes to itself, deliver it
func (w *world) inject(n *simNode, m *aMsg, why string) {
	w.fixFlags(m)
	if m.Kind == "C" && m.ShareOk && !w.byz[m.Snd.Id] {
		// a valid share of an honest member exists only inside that member's own COMMIT messages
		found := false
		for _, hm := range w.history {
			if hm.Kind == "C" && hm.Snd.Id == m.Snd.Id && hm.Ref.Height == m.Ref.Height && hm.ShareOk {
				found = true
			}
		}
		if !found {
			m.ShareOk = false
		}
	}
	raw := w.codec.encode(m)
	back := w.codec.decode(raw)
	if back == nil || back.coq() != m.coq() {
		// the harness could not realise this abstract message faithfully (e.g. duplicate ids collapse); skip it
		w.rep.count("inject:skipped-unrealisable")
		return
	}
	w.history = append(w.history, m)
	w.rep.count("inject:" + why)
	w.deliver(n, m, raw)
}

func runWorldMode(cfg *runCfg, name string, kf1 bool) error {
	return runWorldModeX(cfg, name, kf1, false)
}

func runWorldModeX(cfg *runCfg, name string, kf1 bool, live bool) error {
	r := rand.New(rand.NewSource(cfg.seed))
	rep := newReport(name, cfg)
	runs := 60
	if cfg.tier == "thorough" {
		runs = 1500
	}
	if cfg.n > 0 {
		runs = cfg.n
	}
	var cases []string
	events := 0
	nontrivial := 0
	for i := 0; i < runs; i++ {
		w := newWorld(r, rep, cfg.seed*100000+int64(i))
		w.kf1 = kf1
		nilOK := name == "worldnil"
		w.nilOK = nilOK
		if nilOK && i == 0 {
			w = directedWorld(r, rep, cfg.seed*100000, 1)
			w.nilOK = true
			w.missingBlockScript()
			rep.count("world:directed-missing-block-script")
		} else if nilOK {
			w.run()
		} else if live && i == 0 {
			w = directedWorld(r, rep, cfg.seed*100000, 3)
			w.lockedThenReproposedPrefix()
			rep.count("world:directed-locked-then-reproposed-prefix")
			if why, ok := w.stabilise(); ok {
				rep.count("live:stabilised-worlds")
			} else {
				rep.count("live:skipped: " + why)
			}
		} else if live && i == 1 {
			w = directedWorld(r, rep, cfg.seed*100000+1, 3)
			w.wrongBlockVotePrefix()
			rep.count("world:directed-wrong-block-vote-prefix")
			if why, ok := w.stabilise(); ok {
				rep.count("live:stabilised-worlds")
			} else {
				rep.count("live:skipped: " + why)
			}
		} else if live && i == 2 {
			w = directedWorld(r, rep, cfg.seed*100000+2, 3)
			w.bareBlockVoteScript() // a Byzantine vote without proof but with a block reaches the leader of view 1 before the election
			rep.count("world:directed-bare-block-vote-prefix")
			if why, ok := w.stabilise(); ok {
				rep.count("live:stabilised-worlds")
			} else {
				rep.count("live:skipped: " + why)
			}
		} else if live {
			w.run()
			if why, ok := w.stabilise(); ok {
				rep.count("live:stabilised-worlds")
			} else {
				rep.count("live:skipped: " + why)
			}
		} else if kf1 && i == 0 {
			w = kf1ForkWorld(r, rep, cfg.seed*100000)
			w.kf1ForkScript()
			rep.count("world:directed-KF-1-fork-script")
		} else if kf1 && i == 1 {
			w = kf1ForkWorld(r, rep, cfg.seed*100000+1)
			w.barePreprepareThenNewViewScript()
			rep.count("world:directed-bare-preprepare-then-new-view-script")
		} else if !kf1 && i == 0 {
			w = equivocationWorld(r, rep, cfg.seed*100000)
			w.equivocationScript()
			rep.count("world:directed-equivocation-script")
		} else if !kf1 && i == 1 {
			w = directedWorld(r, rep, cfg.seed*100000+1, 0)
			w.splitProofScript()
			rep.count("world:directed-split-proof-script")
		} else if !kf1 && i == 2 {
			w = directedWorld(r, rep, cfg.seed*100000+2)
			w.earlyPrepareScript()
			rep.count("world:directed-early-prepare-script")
		} else if !kf1 && i == 3 {
			w = directedWorld(r, rep, cfg.seed*100000+3)
			w.lazyReaderSweep()
			rep.count("world:directed-lazy-reader-sweep")
		} else if !kf1 && i == 4 {
			w = directedWorld(r, rep, cfg.seed*100000+4, 1)
			w.lockedView0Script()
			rep.count("world:directed-locked-view0-script")
		} else if !kf1 && i == 5 {
			w = directedWorld(r, rep, cfg.seed*100000+5, 1)
			w.doubleNewViewScript()
			rep.count("world:directed-double-new-view-script")
		} else if !kf1 && i == 6 {
			w = directedWorld(r, rep, cfg.seed*100000+6, 3)
			w.siblingInstanceProofScript()
			rep.count("world:directed-sibling-instance-proof-script")
		} else if !kf1 && i == 7 {
			w = directedWorld(r, rep, cfg.seed*100000+7)
			w.staleNewViewScript()
			rep.count("world:directed-stale-new-view-script")
		} else if !kf1 && i == 8 {
			w = directedWorld(r, rep, cfg.seed*100000+8)
			w.commitBeforePrepareScript()
			rep.count("world:directed-commit-before-prepare-script")
		} else if !kf1 && i == 9 {
			w = zeroWeightWorld(r, rep, cfg.seed*100000+9)
			w.zeroWeightScript()
			rep.count("world:directed-zero-weight-script")
		} else if !kf1 && i == 10 {
			w = directedWorld(r, rep, cfg.seed*100000+10, 3)
			w.twoProofsScript()
			rep.count("world:directed-two-proofs-script")
		} else if !kf1 && i == 11 {
			w = directedWorld(r, rep, cfg.seed*100000+11, 1)
			w.leaderPrepareAheadScript()
			rep.count("world:directed-leader-prepare-ahead-script")
		} else if !kf1 && i == 12 {
			w = directedWorld(r, rep, cfg.seed*100000+12, 3)
			w.liftedProofScript()
			rep.count("world:directed-lifted-proof-script")
		} else if !kf1 && i == 13 {
			w = directedWorldW(r, rep, cfg.seed*100000+13, []uint64{1, 1, 1, 1, 1}, 2)
			w.hugeViewRoleScript()
			rep.count("world:directed-huge-view-role-script")
		} else if !kf1 && i == 14 {
			w = directedWorld(r, rep, cfg.seed*100000+14, 1)
			w.foreignInstanceAheadScript()
			rep.count("world:directed-foreign-instance-ahead-script")
		} else if !kf1 && i == 15 {
			w = directedWorld(r, rep, cfg.seed*100000+15, 3)
			w.bareBlockVoteScript()
			rep.count("world:directed-bare-block-vote-script")
		} else if !kf1 && i == 16 {
			w = directedWorld(r, rep, cfg.seed*100000+16)
			w.outsiderLeaderScript()
			rep.count("world:directed-outsider-leader-script")
		} else if !kf1 && i == 17 {
			w = directedWorld(r, rep, cfg.seed*100000+17)
			w.failedBroadcastScript()
			rep.count("world:directed-failed-broadcast-script")
		} else if !kf1 && i == 18 {
			w = directedWorld(r, rep, cfg.seed*100000+18)
			w.splitSyncScript()
			rep.count("world:directed-split-sync-script")
		} else if !kf1 && i == 19 {
			w = directedWorld(r, rep, cfg.seed*100000+19, 1)
			w.wrongHeightProposalScript()
			rep.count("world:directed-wrong-height-proposal-script")
		} else if !kf1 && i == 20 {
			w = directedWorld(r, rep, cfg.seed*100000+20, 3)
			w.foreignHashPrepareScript()
			rep.count("world:directed-foreign-hash-prepare-script")
		} else if !kf1 && i == 21 {
			w = directedWorld(r, rep, cfg.seed*100000+21, 3)
			w.forgedProofAfterGenuineScript()
			rep.count("world:directed-forged-proof-after-genuine-script")
		} else if !kf1 && i == 22 {
			w = directedWorld(r, rep, cfg.seed*100000+22, 1)
			w.replayedVotesScript()
			rep.count("world:directed-replayed-votes-script")
		} else if !kf1 && i == 23 {
			w = directedWorld(r, rep, cfg.seed*100000+23, 3)
			w.cachedBadCommitScript()
			rep.count("world:directed-cached-bad-commit-script")
		} else if !kf1 && i == 24 {
			w = directedWorld(r, rep, cfg.seed*100000+24, 1)
			w.rehashedBlockScript()
			rep.count("world:directed-rehashed-block-script")
		} else if !kf1 && i == 25 {
			w = directedWorld(r, rep, cfg.seed*100000+25, 3)
			w.replayedSignatureScript()
			rep.count("world:directed-replayed-signature-script")
		} else if !kf1 && i == 26 {
			w = directedWorld(r, rep, cfg.seed*100000+26)
			w.reproposalDuringPendingSyncScript()
			rep.count("world:directed-reproposal-during-pending-sync-script")
		} else if !kf1 && i == 27 {
			w = directedWorld(r, rep, cfg.seed*100000+27)
			w.preparedThenFreshNewViewScript()
			rep.count("world:directed-prepared-then-fresh-new-view-script")
		} else if !kf1 && i == 28 {
			w = directedWorld(r, rep, cfg.seed*100000+28, 3)
			w.borrowedShareScript()
			rep.count("world:directed-borrowed-share-script")
		} else if !kf1 && i == 29 {
			w = directedWorld(r, rep, cfg.seed*100000+29, 3)
			w.commitHashFloodScript()
			rep.count("world:directed-commit-hash-flood-script")
		} else {
			w.run()
		}
		for _, n := range w.honest {
			cases = append(cases, fmt.Sprintf("(CFG %d %d %s %d %s %s, %s)", n.id, worldInst, w.baseCoq(), w.rot, cListN(w.excl[n.id]), cListN(w.failCommit[n.id]), cList(n.steps)))
			events += len(n.steps)
			if len(n.commits) > 0 {
				nontrivial++
			}
		}
		w.finalMonitors()
		if os.Getenv("LHV_TRACE_WORLD") == fmt.Sprint(i) { // debugging aid: the schedule of one world
			for _, t := range w.trace {
				fmt.Fprintln(os.Stderr, t)
			}
		}
		if i < 2 {
			rep.sample(map[string]interface{}{"weights": fmt.Sprint(w.weights), "byzantine": keysOf(w.byz), "schedule_head": head(w.trace, 25)}, 3)
		}
	}
	rep.Evaluations = len(cases)
	rep.DistinctNontr = nontrivial
	rep.Extra["events"] = events
	if live {
		rep.Extra["stabilisation"] = "after the random prefix: laggards synced to the height being decided, inboxes released, then rounds of (Byzantine traffic; deliver everything pending; if the height is not committed, the deciding members in the lowest view time out together); stall = no commit within view-spread + 2n + 3 rounds"
	}
	rep.Rule = fmt.Sprintf("%d random worlds (4-7 members, unit/random/heavy weights, rotation 0/1, Byzantine subsets of weight <= f, 40-260 scheduler steps: deliveries, duplicates, drops, elections, syncs, mutated replays, Byzantine strategies); one case per honest node = its whole event/output/state trace; non-trivial = the node committed at least one block; worlds are distinct by construction (seeded)", runs)
	if name == "worldnil" {
		cases = nil // no model for the lenient consumer
	}
	// one Coq process holds at most perFile traces (memory grows with the number of traces evaluated in one file)
	const perFile, shard = 480, 40
	rep.CaseFiles = nil
	for f, start := 0, 0; start < len(cases) || f == 0; f, start = f+1, start+perFile {
		end := start + perFile
		if end > len(cases) {
			end = len(cases)
		}
		cf := newCaseFile("From LH Require Import Prims Quorum Msg Term Corr.\nOpen Scope N_scope.")
		cf.addShardsFrom("nc", "ncase", "n_ok", cases[start:end], shard, start, start/shard)
		p := filepath.Join(cfg.outDir, "cases_"+name+".v")
		if f > 0 {
			p = filepath.Join(cfg.outDir, fmt.Sprintf("cases_%s_%d.v", name, f))
		}
		if err := cf.write(p); err != nil {
			return err
		}
		rep.CaseFiles = append(rep.CaseFiles, p)
	}
	return rep.write(cfg.outDir)
}

func head(s []string, n int) []string {
	if len(s) > n {
		return s[:n]
	}
	return s
}

func (w *world) baseCoq() string {
	ms := make([]string, w.n)
	for i := 0; i < w.n; i++ {
		ms[i] = cPair(cN(uint64(i)), cN(w.weights[i]))
	}
	return cList(ms)
}

func newWorld(r *rand.Rand, rep *Report, seed int64) *world {
	w := &world{r: r, rep: rep, kr: newKeyring(seed), byz: map[uint64]bool{}, byId: map[uint64]*simNode{}, signed: map[string]bool{},
		proposedBy: map[uint64]uint64{}, validatedBy: map[uint64][]uint64{}, failCommit: map[uint64][]uint64{}, excl: map[uint64][]uint64{}, chain: map[uint64]*aBlock{}, held: map[uint64]bool{}}
	w.codec = newCodec(w.kr)
	w.codec.replaySigs = seed%2 == 0 // in every other world an invalid signature is a genuine one replayed over other bytes, an invalid share member 0's genuine one
	w.codec.borrowShareOf = new(uint64)
	w.ord = rand.New(rand.NewSource(seed ^ 0x5bd1e995))
	w.n = 4 + r.Intn(4)
	w.weights = make([]uint64, w.n)
	switch r.Intn(3) {
	case 0:
		rep.count("world:unit-weights")
		for i := range w.weights {
			w.weights[i] = 1
		}
	case 1:
		rep.count("world:random-weights")
		for i := range w.weights {
			w.weights[i] = uint64(1 + r.Intn(5))
		}
	case 2:
		rep.count("world:one-heavy")
		for i := range w.weights {
			w.weights[i] = uint64(1 + r.Intn(2))
		}
		w.weights[r.Intn(w.n)] = uint64(3 + r.Intn(4))
	}
	if r.Intn(5) == 0 { // a member without weight (an observer in the ordered committee), anywhere in the order
		w.weights[r.Intn(w.n)] = 0
		rep.count("world:zero-weight-member")
	}
	w.rot = uint64(r.Intn(2))
	// Byzantine subset of weight <= f
	if r.Intn(4) != 0 {
		f := w.fBound()
		perm := r.Perm(w.n)
		acc := uint64(0)
		for _, i := range perm {
			if acc+w.weights[i] <= f && r.Intn(3) != 0 {
				w.byz[uint64(i)] = true
				acc += w.weights[i]
			}
		}
	}
	if len(w.byz) > 0 {
		rep.count("world:with-byzantine")
	}
	for i := 0; i < w.n; i++ {
		if !w.byz[uint64(i)] {
			n := w.newNode(uint64(i))
			w.honest = append(w.honest, n)
			w.byId[uint64(i)] = n
		}
	}
	if r.Intn(6) == 0 {
		n := w.honest[r.Intn(len(w.honest))]
		w.failCommit[n.id] = []uint64{uint64(1 + r.Intn(2))}
		rep.count("world:commit-callback-failure")
	}
	if r.Intn(8) == 0 {
		n := w.honest[r.Intn(len(w.honest))]
		w.excl[n.id] = []uint64{uint64(2 + r.Intn(2))}
		rep.count("world:node-out-of-committee-at-some-height")
	}
	return w
}
