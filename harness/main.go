// lhverif — correspondence harness: runs the implementation in /repo on generated inputs and
// writes (a) a Coq file of cases + observed behaviour for evaluation against the Gallina model
// and (b) a JSON report (distribution, monitor findings). See /verif/DESIGN.md §5.
package main

import (
	"flag"
	"fmt"
	"os"
)

type engineFn func(cfg *runCfg) error

type runCfg struct {
	seed   int64
	tier   string
	outDir string
	n      int
	replay string
}

var engines = map[string]engineFn{}

func main() {
	if len(os.Args) < 2 {
		fmt.Fprintln(os.Stderr, "usage: lhverif <engine> [-seed N] [-tier quick|thorough] [-out dir] [-n count] [-replay file]")
		os.Exit(2)
	}
	name := os.Args[1]
	fs := flag.NewFlagSet(name, flag.ExitOnError)
	cfg := &runCfg{}
	fs.Int64Var(&cfg.seed, "seed", 1, "PRNG seed")
	fs.StringVar(&cfg.tier, "tier", "quick", "quick|thorough")
	fs.StringVar(&cfg.outDir, "out", ".", "output directory")
	fs.IntVar(&cfg.n, "n", 0, "case count override")
	fs.StringVar(&cfg.replay, "replay", "", "replay file")
	fs.Parse(os.Args[2:])
	fn, ok := engines[name]
	if !ok {
		fmt.Fprintf(os.Stderr, "unknown engine %q\n", name)
		os.Exit(2)
	}
	if err := os.MkdirAll(cfg.outDir, 0755); err != nil {
		fmt.Fprintln(os.Stderr, err)
		os.Exit(2)
	}
	if err := fn(cfg); err != nil {
		fmt.Fprintln(os.Stderr, "engine error:", err)
		os.Exit(3)
	}
}
