package main

// SPI fakes shared by the engines. Signatures are MACs over a per-member secret, so only code holding a
// member's secret can produce that member's signature (the attacker code of the engines holds Byzantine
// secrets only); every signing is recorded so that signature bytes can be mapped back to who signed what.

import (
	"sync/atomic"
	"bytes"
	"context"
	"crypto/sha256"
	"encoding/binary"
	"errors"
	"fmt"
	"sync"

	"github.com/orbs-network/lean-helix-go/services/interfaces"
	"github.com/orbs-network/lean-helix-go/spec/types/go/primitives"
	"github.com/orbs-network/lean-helix-go/spec/types/go/protocol"
)

type keyring struct {
	mu      sync.Mutex
	secrets map[string][]byte
	master  []byte
}

func newKeyring(seed int64) *keyring {
	return &keyring{secrets: map[string][]byte{}, master: []byte(fmt.Sprintf("master-%d", seed))}
}

func (k *keyring) secret(id primitives.MemberId) []byte {
	k.mu.Lock()
	defer k.mu.Unlock()
	s, ok := k.secrets[string(id)]
	if !ok {
		h := sha256.Sum256(append([]byte("secret-of-"), id...))
		s = h[:]
		k.secrets[string(id)] = s
	}
	return s
}

func mac(kind string, secret []byte, h primitives.BlockHeight, content []byte) []byte {
	var hb [8]byte
	binary.LittleEndian.PutUint64(hb[:], uint64(h))
	x := sha256.New()
	x.Write([]byte(kind))
	x.Write(secret)
	x.Write(hb[:])
	x.Write(content)
	return x.Sum(nil)
}

func (k *keyring) signConsensus(id primitives.MemberId, h primitives.BlockHeight, content []byte) primitives.Signature {
	return primitives.Signature(mac("C", k.secret(id), h, content))
}
func (k *keyring) verifyConsensus(h primitives.BlockHeight, content []byte, id primitives.MemberId, sig []byte) bool {
	return bytes.Equal(mac("C", k.secret(id), h, content), sig)
}
func seedDigest(h primitives.BlockHeight, content []byte) []byte { return mac("D", nil, h, content) }
func (k *keyring) signSeed(id primitives.MemberId, h primitives.BlockHeight, content []byte) primitives.RandomSeedSignature {
	return primitives.RandomSeedSignature(append(mac("R", k.secret(id), h, content), seedDigest(h, content)...))
}
func (k *keyring) masterSeed(h primitives.BlockHeight, content []byte) []byte {
	return mac("M", k.master, 0, seedDigest(h, content))
}

type keyManager struct {
	kr *keyring
	me primitives.MemberId
}

func (km *keyManager) SignConsensusMessage(ctx context.Context, h primitives.BlockHeight, content []byte) primitives.Signature {
	return km.kr.signConsensus(km.me, h, content)
}
func (km *keyManager) VerifyConsensusMessage(h primitives.BlockHeight, content []byte, sender *protocol.SenderSignature) error {
	if km.kr.verifyConsensus(h, content, sender.MemberId(), sender.Signature()) {
		return nil
	}
	return errors.New("bad signature")
}
func (km *keyManager) SignRandomSeed(ctx context.Context, h primitives.BlockHeight, content []byte) primitives.RandomSeedSignature {
	return km.kr.signSeed(km.me, h, content)
}
func (km *keyManager) VerifyRandomSeed(h primitives.BlockHeight, content []byte, sender *protocol.SenderSignature) error {
	id := sender.MemberId()
	if len(id) == 0 { // master
		if bytes.Equal(km.kr.masterSeed(h, content), sender.Signature()) {
			return nil
		}
		return errors.New("bad master seed signature")
	}
	if bytes.Equal(km.kr.signSeed(id, h, content), sender.Signature()) {
		return nil
	}
	return errors.New("bad seed share")
}
func (km *keyManager) AggregateRandomSeed(h primitives.BlockHeight, shares []*protocol.SenderSignature) primitives.RandomSeedSignature {
	// threshold aggregation: all valid shares over one content yield the unique master signature
	if len(shares) == 0 {
		return nil
	}
	s0 := shares[0].Signature()
	if len(s0) != 64 {
		return primitives.RandomSeedSignature("garbage")
	}
	// every pair handed over has to be a share: a member id and 64 bytes over the same seed digest
	for _, sh := range shares {
		if len(sh.MemberId()) == 0 || len(sh.Signature()) != 64 || !bytes.Equal(sh.Signature()[32:], s0[32:]) {
			return primitives.RandomSeedSignature("garbage")
		}
	}
	return primitives.RandomSeedSignature(mac("M", km.kr.master, 0, s0[32:]))
}

// ---- blocks ----
type vblock struct {
	height primitives.BlockHeight
	id     uint64 // payload identity; the hash token of the block
	bad    uint64 // bitmask: node indices whose ValidateBlockProposal rejects it
}

func (b *vblock) Height() primitives.BlockHeight { return b.height }
func (b *vblock) ReferenceTime() primitives.TimestampSeconds { return primitives.TimestampSeconds(b.height) }

func blockHash(b *vblock) primitives.BlockHash {
	return hashToken(b.id)
}
func hashToken(id uint64) primitives.BlockHash {
	var x [8]byte
	binary.LittleEndian.PutUint64(x[:], id)
	h := sha256.Sum256(append([]byte("blockhash"), x[:]...))
	// a block hash is whatever byte string the consumer's hashing gives: these are 72 bytes long and agree in the
	// first 40, so that anything keyed by a fixed-size prefix of a hash collides on them
	return primitives.BlockHash(append([]byte("consumer-chosen-hash-format-v1-40-bytes!"), h[:]...))
}

// ---- membership ----
type membership struct {
	me        primitives.MemberId
	committee func(h primitives.BlockHeight) []interfaces.CommitteeMember
	failFrom  uint64 // from this height on (when > 0) the ordered committee cannot be had: the service behind it is down
	calls     int64
}

func (m *membership) MyMemberId() primitives.MemberId { return m.me }
func (m *membership) RequestOrderedCommittee(ctx context.Context, h primitives.BlockHeight, seed uint64, prevRef primitives.TimestampSeconds) ([]interfaces.CommitteeMember, error) {
	atomic.AddInt64(&m.calls, 1)
	if f := atomic.LoadUint64(&m.failFrom); f > 0 && uint64(h) >= f {
		return nil, errors.New("membership: committee service unavailable")
	}
	return m.committee(h), nil
}
func (m *membership) RequestCommitteeForBlockProof(ctx context.Context, h primitives.BlockHeight, prevRef primitives.TimestampSeconds) ([]interfaces.CommitteeMember, error) {
	return m.committee(h), nil
}

// ---- communication recorder ----
type sentMsg struct {
	to  []primitives.MemberId
	raw *interfaces.ConsensusRawMessage
}
type commRecorder struct {
	sent []sentMsg
}

func (c *commRecorder) SendConsensusMessage(ctx context.Context, recipients []primitives.MemberId, message *interfaces.ConsensusRawMessage) error {
	rc := make([]primitives.MemberId, len(recipients))
	copy(rc, recipients)
	c.sent = append(c.sent, sentMsg{rc, message})
	return nil
}
