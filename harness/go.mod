module lhverif

go 1.12

require (
	github.com/orbs-network/govnr v0.2.0
	github.com/orbs-network/lean-helix-go v0.0.0
	github.com/orbs-network/scribe v0.1.0
)

replace github.com/orbs-network/lean-helix-go => /repo
