package main

import (
	"encoding/json"
	"fmt"
	"io/ioutil"
	"math/big"
	"path/filepath"
	"sort"
	"strings"
	"sync"
)

// ---- Coq term printing ----

func cN(x uint64) string     { return fmt.Sprintf("%d", x) }
func cBig(x *big.Int) string { return x.String() }
func cZ(x int64) string {
	if x < 0 {
		return fmt.Sprintf("(%d)%%Z", x)
	}
	return fmt.Sprintf("%d%%Z", x)
}
func cBool(b bool) string {
	if b {
		return "true"
	}
	return "false"
}
func cNat(x int) string { return fmt.Sprintf("%d%%nat", x) }
func cList(items []string) string {
	return "[" + strings.Join(items, "; ") + "]"
}
func cListN(xs []uint64) string {
	s := make([]string, len(xs))
	for i, x := range xs {
		s[i] = cN(x)
	}
	return cList(s)
}
func cPair(a, b string) string { return "(" + a + ", " + b + ")" }
func cOptN(ok bool, x uint64) string {
	if !ok {
		return "None"
	}
	return fmt.Sprintf("(Some %d)", x)
}

// ---- report ----

type Finding struct {
	Property  string      `json:"property"`
	Signature string      `json:"signature"` // stable identification of what fails (used for known-findings matching)
	Detail    string      `json:"detail"`
	Input     interface{} `json:"input"`
}

type Report struct {
	Engine        string                 `json:"engine"`
	Seed          int64                  `json:"seed"`
	Tier          string                 `json:"tier"`
	Evaluations   int                    `json:"evaluations"`
	DistinctNontr int                    `json:"distinct_nontrivial"`
	Rule          string                 `json:"rule"`
	Distribution  map[string]int         `json:"distribution"`
	Samples       []interface{}          `json:"samples"`
	Findings      []Finding              `json:"findings"`
	Extra         map[string]interface{} `json:"extra,omitempty"`
	CaseFiles     []string               `json:"case_files"`
}

func newReport(engine string, cfg *runCfg) *Report {
	return &Report{Engine: engine, Seed: cfg.seed, Tier: cfg.tier, Distribution: map[string]int{}, Extra: map[string]interface{}{}}
}

var repMu sync.Mutex // the runtime engine counts and reports from several goroutines

func (r *Report) count(k string) {
	repMu.Lock()
	r.Distribution[k]++
	repMu.Unlock()
}
func (r *Report) sample(x interface{}, max int) {
	repMu.Lock()
	defer repMu.Unlock()
	if len(r.Samples) < max {
		r.Samples = append(r.Samples, x)
	}
}
func (r *Report) finding(prop, sig, detail string, input interface{}) {
	repMu.Lock()
	defer repMu.Unlock()
	k := "finding:" + prop + "/" + sig
	r.Distribution[k]++
	if r.Distribution[k] <= 4 { // keep the first few of each kind with their full input; count the rest
		r.Findings = append(r.Findings, Finding{prop, sig, detail, input})
	}
}

func (r *Report) write(dir string) error {
	b, err := json.MarshalIndent(r, "", " ")
	if err != nil {
		return err
	}
	return ioutil.WriteFile(filepath.Join(dir, "report_"+r.Engine+".json"), b, 0644)
}

func sortedKeys(m map[string]int) []string {
	ks := make([]string, 0, len(m))
	for k := range m {
		ks = append(ks, k)
	}
	sort.Strings(ks)
	return ks
}

// writeCases writes a Coq file: header, `Definition <name> : <ty> := [ ... ].` in shards, and the
// evaluation commands. Each shard is evaluated separately and prints `M_<name>_<k> = [...]`.
type caseFile struct {
	imports string
	body    strings.Builder
	evals   []string
}

func newCaseFile(imports string) *caseFile { return &caseFile{imports: imports} }

// addShards defines lists of cases (sharded) and requests `mismatches checker shard`.
func (c *caseFile) addShards(name, ty, checker string, cases []string, shard int) {
	c.addShardsFrom(name, ty, checker, cases, shard, 0, 0)
}

// addShardsFrom: as addShards, for a slice of a longer case list that starts at case index base; shard numbers start at k0
func (c *caseFile) addShardsFrom(name, ty, checker string, cases []string, shard int, base int, k0 int) {
	if shard <= 0 {
		shard = 500
	}
	k := k0
	for i := 0; i < len(cases) || (i == 0 && len(cases) == 0); i += shard {
		j := i + shard
		if j > len(cases) {
			j = len(cases)
		}
		fmt.Fprintf(&c.body, "Definition %s_%d : list (%s) := [\n  %s\n].\n", name, k, ty, strings.Join(cases[i:j], ";\n  "))
		fmt.Fprintf(&c.body, "Definition M_%s_%d := Eval vm_compute in mismatches %s %d %s_%d.\nPrint M_%s_%d.\n", name, k, checker, base+i, name, k, name, k)
		k++
		if len(cases) == 0 {
			break
		}
	}
}

func (c *caseFile) write(path string) error {
	s := c.imports + "\n" + c.body.String()
	return ioutil.WriteFile(path, []byte(s), 0644)
}
