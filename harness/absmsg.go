package main

// Abstract (protocol-level) messages: the Go mirror of coq/theories/Msg.v, with
//   decode: raw bytes produced by the implementation -> abstract form (using the repo's own readers), and
//   encode: abstract form -> raw bytes (using the repo's own builders), signatures made/forged with the keyring.

import (
	"bytes"
	"crypto/sha256"
	"fmt"
	"sort"
	"strconv"
	"strings"

	"github.com/orbs-network/lean-helix-go/services/interfaces"
	"github.com/orbs-network/lean-helix-go/services/randomseed"
	"github.com/orbs-network/lean-helix-go/spec/types/go/primitives"
	"github.com/orbs-network/lean-helix-go/spec/types/go/protocol"
)

type aSig struct {
	Id uint64
	Ok bool
}
type aRef struct{ Type, Inst, Height, View, Hash uint64 }
type aProof struct {
	PPRef  aRef
	PPSnd  aSig
	PRef   aRef
	PSnds  []aSig
}
type aVote struct {
	Type, Inst, Height, View uint64
	Proof                    *aProof
	Snd                      aSig
}
type aBlock struct {
	Height, Id uint64
	Bad        []uint64
}
type aMsg struct {
	Kind    string // PP P C VC NV
	Ref     aRef   // PP P C ; for NV: the embedded preprepare ref
	Snd     aSig   // PP P C NV(header sender)
	ShareOk bool   // C
	Vote    *aVote // VC
	NVType, NVInst, NVHeight, NVView uint64
	Votes   []aVote
	PPSnd   aSig // NV embedded preprepare sender
	Block   *aBlock
}

// ---- Coq printing ----
func (s aSig) coq() string { return fmt.Sprintf("(SG %d %s)", s.Id, cBool(s.Ok)) }
func (r aRef) coq() string {
	return fmt.Sprintf("(RF %d %d %d %d %d)", r.Type, r.Inst, r.Height, r.View, r.Hash)
}
func coqSigs(l []aSig) string {
	s := make([]string, len(l))
	for i, x := range l {
		s[i] = x.coq()
	}
	return cList(s)
}
func (p *aProof) coq() string {
	if p == nil {
		return "None"
	}
	return fmt.Sprintf("(Some (PF %s %s %s %s))", p.PPRef.coq(), p.PPSnd.coq(), p.PRef.coq(), coqSigs(p.PSnds))
}
func (v aVote) coq() string {
	return fmt.Sprintf("(VT %d %d %d %d %s %s)", v.Type, v.Inst, v.Height, v.View, v.Proof.coq(), v.Snd.coq())
}
func (b *aBlock) coq() string {
	if b == nil {
		return "None"
	}
	return fmt.Sprintf("(Some (BK %d %d %s))", b.Height, b.Id, cListN(b.Bad))
}
func (b *aBlock) coqBare() string { return fmt.Sprintf("(BK %d %d %s)", b.Height, b.Id, cListN(b.Bad)) }
func (m *aMsg) coq() string {
	switch m.Kind {
	case "PP":
		return fmt.Sprintf("(MPP %s %s %s)", m.Ref.coq(), m.Snd.coq(), m.Block.coq())
	case "P":
		return fmt.Sprintf("(MP %s %s)", m.Ref.coq(), m.Snd.coq())
	case "C":
		return fmt.Sprintf("(MC %s %s %s)", m.Ref.coq(), m.Snd.coq(), cBool(m.ShareOk))
	case "VC":
		return fmt.Sprintf("(MVC %s %s)", m.Vote.coq(), m.Block.coq())
	case "NV":
		vs := make([]string, len(m.Votes))
		for i, v := range m.Votes {
			vs[i] = v.coq()
		}
		return fmt.Sprintf("(MNV %d %d %d %d %s %s %s %s %s)", m.NVType, m.NVInst, m.NVHeight, m.NVView, cList(vs), m.Snd.coq(), m.Ref.coq(), m.PPSnd.coq(), m.Block.coq())
	}
	return "BAD"
}
func (m *aMsg) height() uint64 {
	switch m.Kind {
	case "VC":
		return m.Vote.Height
	case "NV":
		return m.NVHeight
	}
	return m.Ref.Height
}
func (m *aMsg) view() uint64 {
	switch m.Kind {
	case "VC":
		return m.Vote.View
	case "NV":
		return m.NVView
	}
	return m.Ref.View
}
func (m *aMsg) sender() uint64 {
	if m.Kind == "VC" {
		return m.Vote.Snd.Id
	}
	return m.Snd.Id
}
func (m *aMsg) clone() *aMsg {
	c := *m
	if m.Vote != nil {
		v := cloneVote(*m.Vote)
		c.Vote = &v
	}
	c.Votes = make([]aVote, len(m.Votes))
	for i, v := range m.Votes {
		c.Votes[i] = cloneVote(v)
	}
	if m.Block != nil {
		b := *m.Block
		b.Bad = append([]uint64{}, m.Block.Bad...)
		c.Block = &b
	}
	return &c
}
func cloneVote(v aVote) aVote {
	c := v
	if v.Proof != nil {
		p := *v.Proof
		p.PSnds = append([]aSig{}, v.Proof.PSnds...)
		c.Proof = &p
	}
	return c
}

// ---- tokens ----
type codec struct {
	kr        *keyring
	hashByTok map[uint64][]byte
	tokByHash map[string]uint64
	nextJunk  uint64
	blocks    map[uint64]*vblock
	seedSigs  map[uint64][]byte // height -> canonical random seed signature of the proof of that height's block
	goodSigs  map[string][]byte // member/height -> the last valid signature made for it
	goodOver  map[string]string // ... and the bytes it covers
	replaySigs bool             // an invalid signature is a replayed genuine one when there is one
	borrowShareOf *uint64 // with replaySigs: an invalid share is this member's genuine one
}

func newCodec(kr *keyring) *codec {
	return &codec{kr: kr, hashByTok: map[uint64][]byte{}, tokByHash: map[string]uint64{}, nextJunk: 500000000, blocks: map[uint64]*vblock{}, seedSigs: map[uint64][]byte{0: nil}}
}

func memberTok(id primitives.MemberId) uint64 {
	s := string(id)
	if len(s) == len(idPrefix)+5 && strings.HasPrefix(s, idPrefix) {
		if n, err := strconv.ParseUint(s[len(idPrefix):], 10, 64); err == nil {
			return n
		}
	}
	if len(s) == 0 {
		return 99999
	}
	h := sha256.Sum256(id)
	return 90000 + uint64(h[0])
}

func (c *codec) hashBytes(tok uint64) primitives.BlockHash {
	if tok == 0 {
		return primitives.BlockHash{}
	}
	if b, ok := c.hashByTok[tok]; ok {
		return b
	}
	b := []byte(hashToken(tok))
	c.hashByTok[tok] = b
	c.tokByHash[string(b)] = tok
	return b
}
func (c *codec) hashTok(b []byte) uint64 {
	if len(b) == 0 {
		return 0
	}
	if t, ok := c.tokByHash[string(b)]; ok {
		return t
	}
	// maybe the hash of a block id not yet seen: register lazily for small ids is not possible (one-way); junk token
	c.nextJunk++
	c.tokByHash[string(b)] = c.nextJunk
	c.hashByTok[c.nextJunk] = append([]byte{}, b...)
	return c.nextJunk
}
func (c *codec) registerBlock(b *vblock) {
	c.blocks[b.id] = b
	c.hashBytes(b.id)
}
func (c *codec) mkBlock(a *aBlock) *vblock {
	if a == nil {
		return nil
	}
	var mask uint64
	for _, i := range a.Bad {
		mask |= 1 << i
	}
	if b, ok := c.blocks[a.Id]; ok && uint64(b.height) == a.Height && b.bad == mask {
		return b
	}
	b := &vblock{height: primitives.BlockHeight(a.Height), id: a.Id, bad: mask}
	c.hashBytes(a.Id)
	if _, ok := c.blocks[a.Id]; !ok {
		c.blocks[a.Id] = b
	}
	return b
}
func absBlock(b interfaces.Block) *aBlock {
	if b == nil {
		return nil
	}
	vb, ok := b.(*vblock)
	if !ok || vb == nil {
		return nil
	}
	var bad []uint64
	for i := uint64(0); i < 64; i++ {
		if vb.bad&(1<<i) != 0 {
			bad = append(bad, i)
		}
	}
	return &aBlock{uint64(vb.height), vb.id, bad}
}

// canonical random-seed chain (see DESIGN §5): seedSig(h) is the master signature every valid proof of height h carries
func (c *codec) seedBytesFor(h uint64) []byte {
	if h == 0 {
		return []byte("no-height-zero")
	}
	return randomseed.RandomSeedToBytes(randomseed.CalculateRandomSeed(c.seedSig(h - 1)))
}
func (c *codec) seedSig(h uint64) []byte {
	if h > 100000 { // far outside any height a run reaches: no genuine proof exists there
		return []byte("no-such-height")
	}
	if s, ok := c.seedSigs[h]; ok {
		return s
	}
	// iterative to avoid deep recursion
	var known uint64
	for k := h; ; k-- {
		if _, ok := c.seedSigs[k]; ok {
			known = k
			break
		}
	}
	for k := known + 1; k <= h; k++ {
		c.seedSigs[k] = c.kr.masterSeed(primitives.BlockHeight(k), c.seedBytesFor(k))
	}
	return c.seedSigs[h]
}
func (c *codec) syncProof(h uint64) []byte {
	if h == 0 {
		return nil
	}
	return (&protocol.BlockProofBuilder{
		BlockRef:            &protocol.BlockRefBuilder{MessageType: protocol.LEAN_HELIX_COMMIT, BlockHeight: primitives.BlockHeight(h)},
		RandomSeedSignature: c.seedSig(h),
	}).Build().Raw()
}

// ---- decode (implementation output -> abstract) ----
func (c *codec) decRef(r *protocol.BlockRef) aRef {
	return aRef{uint64(r.MessageType()), uint64(r.InstanceId()), uint64(r.BlockHeight()), uint64(r.View()), c.hashTok(r.BlockHash())}
}
func (c *codec) decSig(h primitives.BlockHeight, content []byte, s *protocol.SenderSignature) aSig {
	return aSig{memberTok(s.MemberId()), c.kr.verifyConsensus(h, content, s.MemberId(), s.Signature())}
}
// canonicalRef: the header bytes are exactly what the builder produces for the header's field values. The bytes a
// member signs for PREPREPARE / PREPARE / COMMIT must be canonical: prepared proofs and block proofs carry one
// rebuilt reference for all signers.
func canonicalRef(r *protocol.BlockRef) bool {
	b := (&protocol.BlockRefBuilder{MessageType: r.MessageType(), InstanceId: r.InstanceId(), BlockHeight: r.BlockHeight(), View: r.View(), BlockHash: r.BlockHash()}).Build()
	return bytes.Equal(b.Raw(), r.Raw())
}
func (c *codec) decHdrSig(r *protocol.BlockRef, s *protocol.SenderSignature) aSig {
	x := c.decSig(r.BlockHeight(), r.Raw(), s)
	x.Ok = x.Ok && canonicalRef(r)
	return x
}

func (c *codec) decProof(p *protocol.PreparedProof) *aProof {
	if p == nil || len(p.Raw()) == 0 {
		return nil
	}
	pp, pr := p.PreprepareBlockRef(), p.PrepareBlockRef()
	res := &aProof{PPRef: c.decRef(pp), PPSnd: c.decSig(pp.BlockHeight(), pp.Raw(), p.PreprepareSender()), PRef: c.decRef(pr)}
	it := p.PrepareSendersIterator()
	for it.HasNext() {
		res.PSnds = append(res.PSnds, c.decSig(pr.BlockHeight(), pr.Raw(), it.NextPrepareSenders()))
	}
	return res
}
func (c *codec) decVote(v *protocol.ViewChangeMessageContent) aVote {
	h := v.SignedHeader()
	return aVote{uint64(h.MessageType()), uint64(h.InstanceId()), uint64(h.BlockHeight()), uint64(h.View()), c.decProof(h.PreparedProof()), c.decSig(h.BlockHeight(), h.Raw(), v.Sender())}
}
func (c *codec) decode(raw *interfaces.ConsensusRawMessage) *aMsg {
	cm := interfaces.ToConsensusMessage(raw)
	switch m := cm.(type) {
	case *interfaces.PreprepareMessage:
		h := m.Content().SignedHeader()
		return &aMsg{Kind: "PP", Ref: c.decRef(h), Snd: c.decHdrSig(h, m.Content().Sender()), Block: absBlock(m.Block())}
	case *interfaces.PrepareMessage:
		h := m.Content().SignedHeader()
		return &aMsg{Kind: "P", Ref: c.decRef(h), Snd: c.decHdrSig(h, m.Content().Sender())}
	case *interfaces.CommitMessage:
		h := m.Content().SignedHeader()
		snd := m.Content().Sender()
		shareOk := bytes.Equal(c.kr.signSeed(snd.MemberId(), h.BlockHeight(), c.seedBytesFor(uint64(h.BlockHeight()))), m.Content().Share())
		return &aMsg{Kind: "C", Ref: c.decRef(h), Snd: c.decHdrSig(h, snd), ShareOk: shareOk}
	case *interfaces.ViewChangeMessage:
		v := c.decVote(m.Content())
		return &aMsg{Kind: "VC", Vote: &v, Block: absBlock(m.Block())}
	case *interfaces.NewViewMessage:
		h := m.Content().SignedHeader()
		res := &aMsg{Kind: "NV", NVType: uint64(h.MessageType()), NVInst: uint64(h.InstanceId()), NVHeight: uint64(h.BlockHeight()), NVView: uint64(h.View()),
			Snd: c.decSig(h.BlockHeight(), h.Raw(), m.Content().Sender()), Block: absBlock(m.Block())}
		it := h.ViewChangeConfirmationsIterator()
		for it.HasNext() {
			res.Votes = append(res.Votes, c.decVote(it.NextViewChangeConfirmations()))
		}
		pp := m.Content().Message()
		res.Ref = c.decRef(pp.SignedHeader())
		res.PPSnd = c.decHdrSig(pp.SignedHeader(), pp.Sender())
		return res
	}
	return nil
}

// canonical order for comparison with the model: everything that comes out of a Go map is sorted by sender id
func canon(m *aMsg) *aMsg {
	c := m.clone()
	sortProof := func(p *aProof) {
		if p != nil {
			sort.SliceStable(p.PSnds, func(i, j int) bool { return p.PSnds[i].Id < p.PSnds[j].Id })
		}
	}
	if c.Vote != nil {
		sortProof(c.Vote.Proof)
	}
	for i := range c.Votes {
		sortProof(c.Votes[i].Proof)
	}
	sort.SliceStable(c.Votes, func(i, j int) bool { return c.Votes[i].Snd.Id < c.Votes[j].Snd.Id })
	return c
}

// ---- encode (abstract -> raw) ----
func (c *codec) encRef(r aRef) *protocol.BlockRefBuilder {
	return &protocol.BlockRefBuilder{MessageType: protocol.MessageType(r.Type), InstanceId: primitives.InstanceId(r.Inst), BlockHeight: primitives.BlockHeight(r.Height), View: primitives.View(r.View), BlockHash: c.hashBytes(r.Hash)}
}
func (c *codec) encSig(s aSig, h uint64, content []byte) *protocol.SenderSignatureBuilder {
	id := idBytes(s.Id)
	var sig []byte
	key := fmt.Sprintf("%d/%d", s.Id, h)
	if s.Ok {
		sig = c.kr.signConsensus(id, primitives.BlockHeight(h), content)
		if c.goodSigs == nil {
			c.goodSigs = map[string][]byte{}
			c.goodOver = map[string]string{}
		}
		c.goodSigs[key], c.goodOver[key] = sig, string(content)
	} else if g, ok := c.goodSigs[key]; ok && c.replaySigs && c.goodOver[key] != string(content) {
		sig = g // a signature the member really made - over other bytes (the last ones it signed for this height)
	} else {
		x := sha256.Sum256(append([]byte("junk"), content...))
		sig = x[:]
	}
	return &protocol.SenderSignatureBuilder{MemberId: id, Signature: sig}
}
func (c *codec) encProof(p *aProof) *protocol.PreparedProofBuilder {
	if p == nil {
		return nil
	}
	pp, pr := c.encRef(p.PPRef), c.encRef(p.PRef)
	b := &protocol.PreparedProofBuilder{PreprepareBlockRef: pp, PreprepareSender: c.encSig(p.PPSnd, p.PPRef.Height, pp.Build().Raw()), PrepareBlockRef: pr}
	prRaw := pr.Build().Raw()
	for _, s := range p.PSnds {
		b.PrepareSenders = append(b.PrepareSenders, c.encSig(s, p.PRef.Height, prRaw))
	}
	return b
}
func (c *codec) encVote(v aVote) *protocol.ViewChangeMessageContentBuilder {
	h := &protocol.ViewChangeHeaderBuilder{MessageType: protocol.MessageType(v.Type), InstanceId: primitives.InstanceId(v.Inst), BlockHeight: primitives.BlockHeight(v.Height), View: primitives.View(v.View), PreparedProof: c.encProof(v.Proof)}
	return &protocol.ViewChangeMessageContentBuilder{SignedHeader: h, Sender: c.encSig(v.Snd, v.Height, h.Build().Raw())}
}
func (c *codec) encode(m *aMsg) *interfaces.ConsensusRawMessage {
	var content *protocol.LeanhelixContentBuilder
	var blk interfaces.Block
	if vb := c.mkBlock(m.Block); vb != nil {
		blk = vb
	}
	switch m.Kind {
	case "PP":
		r := c.encRef(m.Ref)
		content = &protocol.LeanhelixContentBuilder{Message: protocol.LEANHELIX_CONTENT_MESSAGE_PREPREPARE_MESSAGE,
			PreprepareMessage: &protocol.PreprepareContentBuilder{SignedHeader: r, Sender: c.encSig(m.Snd, m.Ref.Height, r.Build().Raw())}}
	case "P":
		r := c.encRef(m.Ref)
		content = &protocol.LeanhelixContentBuilder{Message: protocol.LEANHELIX_CONTENT_MESSAGE_PREPARE_MESSAGE,
			PrepareMessage: &protocol.PrepareContentBuilder{SignedHeader: r, Sender: c.encSig(m.Snd, m.Ref.Height, r.Build().Raw())}}
		blk = nil
	case "C":
		r := c.encRef(m.Ref)
		var share []byte
		if m.ShareOk {
			share = c.kr.signSeed(idBytes(m.Snd.Id), primitives.BlockHeight(m.Ref.Height), c.seedBytesFor(m.Ref.Height))
		} else if c.replaySigs && c.borrowShareOf != nil && *c.borrowShareOf != m.Snd.Id {
			// another member's genuine share for this height
			share = c.kr.signSeed(idBytes(*c.borrowShareOf), primitives.BlockHeight(m.Ref.Height), c.seedBytesFor(m.Ref.Height))
		} else {
			share = []byte("junk-share")
		}
		content = &protocol.LeanhelixContentBuilder{Message: protocol.LEANHELIX_CONTENT_MESSAGE_COMMIT_MESSAGE,
			CommitMessage: &protocol.CommitContentBuilder{SignedHeader: r, Sender: c.encSig(m.Snd, m.Ref.Height, r.Build().Raw()), Share: share}}
		blk = nil
	case "VC":
		content = &protocol.LeanhelixContentBuilder{Message: protocol.LEANHELIX_CONTENT_MESSAGE_VIEW_CHANGE_MESSAGE, ViewChangeMessage: c.encVote(*m.Vote)}
	case "NV":
		h := &protocol.NewViewHeaderBuilder{MessageType: protocol.MessageType(m.NVType), InstanceId: primitives.InstanceId(m.NVInst), BlockHeight: primitives.BlockHeight(m.NVHeight), View: primitives.View(m.NVView)}
		for _, v := range m.Votes {
			h.ViewChangeConfirmations = append(h.ViewChangeConfirmations, c.encVote(v))
		}
		r := c.encRef(m.Ref)
		content = &protocol.LeanhelixContentBuilder{Message: protocol.LEANHELIX_CONTENT_MESSAGE_NEW_VIEW_MESSAGE,
			NewViewMessage: &protocol.NewViewMessageContentBuilder{SignedHeader: h, Sender: c.encSig(m.Snd, m.NVHeight, h.Build().Raw()),
				Message: &protocol.PreprepareContentBuilder{SignedHeader: r, Sender: c.encSig(m.PPSnd, m.Ref.Height, r.Build().Raw())}}}
	}
	return &interfaces.ConsensusRawMessage{Content: content.Build().Raw(), Block: blk}
}

// encodeNonCanonical: a PREPARE or COMMIT whose signed header carries trailing bytes; the sender's signature is valid
// over exactly those bytes (only a member controlling its own key can make one)
func (c *codec) encodeNonCanonical(m *aMsg) *interfaces.ConsensusRawMessage {
	r := c.encRef(m.Ref)
	raw := append(append([]byte{}, r.Build().Raw()...), 0, 0, 0, 0)
	id := idBytes(m.Snd.Id)
	snd := &protocol.SenderSignatureBuilder{MemberId: id, Signature: c.kr.signConsensus(id, primitives.BlockHeight(m.Ref.Height), raw)}
	hdr := protocol.BlockRefBuilderFromRaw(raw)
	var content *protocol.LeanhelixContentBuilder
	if m.Kind == "P" {
		content = &protocol.LeanhelixContentBuilder{Message: protocol.LEANHELIX_CONTENT_MESSAGE_PREPARE_MESSAGE, PrepareMessage: &protocol.PrepareContentBuilder{SignedHeader: hdr, Sender: snd}}
	} else {
		share := c.kr.signSeed(id, primitives.BlockHeight(m.Ref.Height), c.seedBytesFor(m.Ref.Height))
		content = &protocol.LeanhelixContentBuilder{Message: protocol.LEANHELIX_CONTENT_MESSAGE_COMMIT_MESSAGE, CommitMessage: &protocol.CommitContentBuilder{SignedHeader: hdr, Sender: snd, Share: share}}
	}
	return &interfaces.ConsensusRawMessage{Content: content.Build().Raw()}
}

func joinCoq(xs []string) string { return strings.Join(xs, "; ") }
