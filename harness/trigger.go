package main

// trigger engine (C19b): the real TimerBasedElectionTrigger driven through its public operations - RegisterOnElection,
// Stop - in quick succession, with "settle" points at which time passes until everything armed has fired and has been
// read from the election channel. The triggers read, in order, are compared with the model (Timer.v: tm_public_run) and
// with a reference written from the property text: an armed, un-superseded, un-stopped timer delivers exactly one
// trigger carrying its pair; a stopped or superseded one delivers none; re-registering the pair that is armed does not
// restart it.

import (
	"bytes"
	"fmt"
	"math/rand"
	"path/filepath"
	"runtime/pprof"
	"strings"
	"sync"
	"sync/atomic"
	"time"

	"github.com/orbs-network/lean-helix-go/services/electiontrigger"
	"github.com/orbs-network/lean-helix-go/services/interfaces"
	"github.com/orbs-network/lean-helix-go/spec/types/go/primitives"
)

func init() { engines["trigger"] = runTrigger }

type tgOp struct {
	kind string // reg, stop, settle
	h, v uint64
}

func (o tgOp) coq() string {
	switch o.kind {
	case "reg":
		return fmt.Sprintf("PRegister %d %d", o.h, o.v)
	case "stop":
		return "PStop"
	case "fire":
		return "PFire"
	case "resume":
		return "PResume"
	case "giveup":
		return "PGiveUp"
	}
	return "PSettle"
}

type tgRun struct {
	mu     sync.Mutex
	handed [][2]uint64 // what the election callback was handed, per delivered trigger
	later  []func()    // the functions of the delivered triggers, run after the sequence
	got    [][2]uint64
	done   chan struct{}
	paused int32 // the reader does not touch the channel while set
	acked  int32 // the reader has seen the pause and is outside its receive
}

func (r *tgRun) count() int {
	r.mu.Lock()
	defer r.mu.Unlock()
	return len(r.got)
}

// runTriggerSeq drives one fresh trigger; returns what the reader received and whether a wait for an expected trigger timed out
func runTriggerSeq(ops []tgOp, base time.Duration) (got [][2]uint64, expected [][2]uint64, parked int, tightOut bool, handed [][2]uint64) {
	tr := Electiontrigger.NewTimerBasedElectionTrigger(base, nil)
	run := &tgRun{done: make(chan struct{})}
	stopReader := make(chan struct{})
	go func() {
		defer close(run.done)
		for {
			if atomic.LoadInt32(&run.paused) == 1 {
				atomic.StoreInt32(&run.acked, 1)
				select {
				case <-stopReader:
					return
				case <-time.After(200 * time.Microsecond):
				}
				continue
			}
			atomic.StoreInt32(&run.acked, 0)
			select {
			case <-time.After(200 * time.Microsecond): // come back to look at the pause flag
			case t := <-tr.ElectionChannel():
				run.mu.Lock()
				run.got = append(run.got, [2]uint64{uint64(t.Hv.Height()), uint64(t.Hv.View())})
				run.mu.Unlock()
				if t.MoveToNextLeader != nil {
					run.mu.Lock()
					run.later = append(run.later, t.MoveToNextLeader) // run at the end, after whatever was registered since: it must still speak of the pair the trigger carries
					run.mu.Unlock()
				}
			case <-stopReader:
				return
			}
		}
	}()
	cb := func(h primitives.BlockHeight, v primitives.View, f interfaces.OnElectionCallback) {
		run.mu.Lock()
		run.handed = append(run.handed, [2]uint64{uint64(h), uint64(v)})
		run.mu.Unlock()
	}
	// the reference: what the property text says must come out
	handler := false
	var ph, pv uint64
	pending := false // an instance that has not fired yet and was not stopped
	parkedLive := false // an instance that fired while nobody was reading and has not been cancelled since
	maxTimeout := base << 1
	var armedAt time.Time
	var armedTimeout time.Duration
	tight := false // an "immediate" operation ran too close to the expiry of what was armed: the outcome is a race, not a verdict
	margin := func() {
		if pending && time.Since(armedAt) > armedTimeout/2 {
			tight = true
		}
	}
	for _, o := range ops {
		switch o.kind {
		case "reg":
			margin()
			tr.RegisterOnElection(primitives.BlockHeight(o.h), primitives.View(o.v), cb)
			if !(handler && ph == o.h && pv == o.v) {
				handler, ph, pv, pending, parkedLive = true, o.h, o.v, true, false
				armedAt, armedTimeout = time.Now(), base<<o.v
			}
		case "stop":
			margin()
			tr.Stop()
			handler, pending, parkedLive = false, false, false
		case "fire": // time passes while nobody reads the channel
			atomic.StoreInt32(&run.paused, 1)
			for t := 0; atomic.LoadInt32(&run.acked) == 0 && t < 2000; t++ {
				time.Sleep(50 * time.Microsecond)
			}
			margin() // the reader left its receive only now: that must be well before the expiry
			time.Sleep(2*maxTimeout + 5*time.Millisecond)
			if pending {
				pending, parkedLive = false, true
			}
		case "resume":
			margin()
			atomic.StoreInt32(&run.paused, 0)
			if parkedLive {
				expected = append(expected, [2]uint64{ph, pv})
				parkedLive = false
				deadline := time.Now().Add(2 * time.Second)
				for run.count() < len(expected) && time.Now().Before(deadline) {
					time.Sleep(time.Millisecond)
				}
				time.Sleep(2 * time.Millisecond)
			}
		case "giveup": // time passes and the reader stays away (shutdown: the main loop is gone)
			time.Sleep(5 * time.Millisecond)
		case "settle":
			if pending {
				expected = append(expected, [2]uint64{ph, pv})
				pending = false
				deadline := time.Now().Add(2 * time.Second)
				for run.count() < len(expected) && time.Now().Before(deadline) {
					time.Sleep(time.Millisecond)
				}
			}
			time.Sleep(2*maxTimeout + 5*time.Millisecond) // anything else that was (wrongly) left armed fires now
		}
	}
	countParked := func() int {
		k := 0
		for t := 0; t < 100; t++ {
			var b bytes.Buffer
			pprof.Lookup("goroutine").WriteTo(&b, 1)
			k = strings.Count(b.String(), "electiontrigger.triggerElections")
			if k == 0 {
				break
			}
			time.Sleep(2 * time.Millisecond)
		}
		return k
	}
	if atomic.LoadInt32(&run.paused) == 1 {
		// the sequence ended with the reader away (Stop, then time passing): what is parked now stays parked for ever
		parked = countParked()
	}
	tr.Stop()
	atomic.StoreInt32(&run.paused, 0)
	time.Sleep(3 * time.Millisecond)
	close(stopReader)
	<-run.done
	// goroutines of the trigger that are still around (parked in triggerElections)
	if k := countParked(); k > parked {
		parked = k
	}
	run.mu.Lock()
	fs := run.later
	run.mu.Unlock()
	for _, f := range fs {
		f()
	}
	run.mu.Lock()
	defer run.mu.Unlock()
	return run.got, expected, parked, tight, run.handed
}

func runTrigger(cfg *runCfg) error {
	r := rand.New(rand.NewSource(cfg.seed))
	rep := newReport("trigger", cfg)
	n := 60
	if cfg.tier == "thorough" {
		n = 600
	}
	if cfg.n > 0 {
		n = cfg.n
	}
	base := 20 * time.Millisecond // far above the latency of the operations that are meant to be immediate
	pairs := [][2]uint64{{1, 0}, {1, 1}, {2, 0}, {2, 1}}
	var cases []string
	for i := 0; i < n; i++ {
		var ops []tgOp
		k := 3 + r.Intn(7)
		for j := 0; j < k; j++ {
			switch x := r.Intn(10); {
			case x < 5:
				p := pairs[r.Intn(len(pairs))]
				if r.Intn(3) == 0 && len(ops) > 0 { // repeat the pair used last: the interesting case
					for q := len(ops) - 1; q >= 0; q-- {
						if ops[q].kind == "reg" {
							p = [2]uint64{ops[q].h, ops[q].v}
							break
						}
					}
				}
				ops = append(ops, tgOp{"reg", p[0], p[1]})
			case x < 7:
				ops = append(ops, tgOp{"stop", 0, 0})
			case x < 8: // time passes with no reader, then a stop / another registration / nothing, then the reader is back
				ops = append(ops, tgOp{"fire", 0, 0})
				switch r.Intn(3) {
				case 0:
					ops = append(ops, tgOp{"stop", 0, 0})
				case 1:
					p := pairs[r.Intn(len(pairs))]
					ops = append(ops, tgOp{"reg", p[0], p[1]})
				}
				ops = append(ops, tgOp{"resume", 0, 0})
			default:
				ops = append(ops, tgOp{"settle", 0, 0})
			}
		}
		if r.Intn(4) == 0 { // shutdown ending: the timer fires while nobody reads, Stop, and the reader never comes back
			p := pairs[r.Intn(len(pairs))]
			ops = append(ops, tgOp{"settle", 0, 0}, tgOp{"reg", p[0], p[1]}, tgOp{"fire", 0, 0}, tgOp{"stop", 0, 0}, tgOp{"giveup", 0, 0})
		} else {
			ops = append(ops, tgOp{"settle", 0, 0})
		}
		var got, exp, handed [][2]uint64
		var parked int
		for attempt := 0; ; attempt++ {
			sw := startStallWatch()
			var tight bool
			got, exp, parked, tight, handed = runTriggerSeq(ops, base)
			stalled := sw.finish()
			if (stalled || tight) && attempt < 3 {
				rep.count("trigger:sequence-repeated-after-machine-stall-or-tight-timing")
				continue
			}
			if stalled || tight {
				rep.count("trigger:sequence-inconclusive")
				got, parked = exp, 0 // not judged
			}
			break
		}
		cops := make([]string, len(ops))
		desc := make([]string, len(ops))
		for j, o := range ops {
			cops[j] = o.coq()
			desc[j] = o.coq()
		}
		same := len(got) == len(exp)
		for j := 0; same && j < len(got); j++ {
			same = got[j] == exp[j]
		}
		if !same {
			sig := "unexpected-trigger"
			if len(got) < len(exp) {
				sig = "armed-timer-did-not-deliver"
			}
			rep.finding("C19", sig, fmt.Sprintf("operations %v: the channel reader received %v, the property demands %v", desc, got, exp), map[string]interface{}{"ops": desc, "received": got, "expected": exp, "base_timeout_ms": base.Milliseconds()})
		}
		for j := 0; j < len(got) && j < len(handed); j++ {
			if got[j] != handed[j] {
				rep.finding("C19", "callback-handed-another-pair", fmt.Sprintf("operations %v: the trigger read from the channel carries %v, the election callback it runs was handed %v", desc, got[j], handed[j]), map[string]interface{}{"ops": desc, "received": got, "handed": handed})
				break
			}
		}
		if parked > 0 {
			rep.finding("C19", "fired-callback-not-released", fmt.Sprintf("operations %v: %d goroutine(s) of the trigger are still parked in triggerElections after the final Stop", desc, parked), map[string]interface{}{"ops": desc})
			rep.finding("C16", "goroutine-leak", fmt.Sprintf("election trigger, operations %v: %d goroutine(s) still parked in triggerElections after Stop", desc, parked), map[string]interface{}{"ops": desc})
		}
		cg := make([]string, len(got))
		for j, g := range got {
			cg[j] = fmt.Sprintf("(%d, %d)", g[0], g[1])
		}
		cases = append(cases, fmt.Sprintf("(%s, %s, %d)", cList(cops), cList(cg), parked))
		rep.count(fmt.Sprintf("trigger:deliveries-%d", len(got)))
		if i < 3 {
			rep.sample(map[string]interface{}{"ops": desc, "received": got}, 3)
		}
	}
	rep.Evaluations = len(cases)
	rep.DistinctNontr = len(cases)
	rep.Rule = "random sequences of 4-10 public operations (RegisterOnElection over four pairs with deliberate repeats of the last pair, Stop, settle, time passing with the reader away, the reader coming back; one sequence in four ends the way a shutdown does: expiry with the reader away, Stop, reader never back) on a fresh real TimerBasedElectionTrigger with a 20 ms base timeout and a channel reader; settle = wait for the expected trigger (up to 2 s) and then two maximal timeouts more; observable = pairs read from the channel in order"
	cf := newCaseFile("From LH Require Import Prims Timer Corr.\nOpen Scope N_scope.")
	cf.addShards("tg", "tgcase", "tg_ok", cases, 200)
	p := filepath.Join(cfg.outDir, "cases_trigger.v")
	if err := cf.write(p); err != nil {
		return err
	}
	rep.CaseFiles = []string{p}
	return rep.write(cfg.outDir)
}
