package main

// wire engine, second half (C20 "every message the factory can build"): messages of all five kinds built through the
// real services/messagesfactory - votes from PreparedMessages whose PREPREPARE and PREPAREs come from other members'
// factories and need not name the same hash, NEW_VIEWs from such votes - converted to raw, read back, compared field
// by field with what went in (the expected message is written from the factory's inputs, not from its output), every
// signature re-verified over the re-read bytes, and handed to the Coq codec like the builder-made messages.

import (
	"context"
	"fmt"
	"math/rand"

	"github.com/orbs-network/lean-helix-go/services/interfaces"
	"github.com/orbs-network/lean-helix-go/services/messagesfactory"
	"github.com/orbs-network/lean-helix-go/services/preparedmessages"
	"github.com/orbs-network/lean-helix-go/services/randomseed"
	"github.com/orbs-network/lean-helix-go/spec/types/go/primitives"
	"github.com/orbs-network/lean-helix-go/spec/types/go/protocol"
)

type facEnv struct {
	r   *rand.Rand
	rep *Report
	kr  *keyring
}

func (e *facEnv) factory(inst uint64, id uint64, seed uint64) (*messagesfactory.MessageFactory, *keyManager) {
	km := &keyManager{e.kr, idBytes(id)}
	return messagesfactory.NewMessageFactory(primitives.InstanceId(inst), km, idBytes(id), seed), km
}

func (e *facEnv) sigOver(id uint64, h uint64, raw []byte) wSig {
	return wSig{[]byte(idBytes(id)), []byte(e.kr.signConsensus(idBytes(id), primitives.BlockHeight(h), raw))}
}

// prepared: PreparedMessages as another node's storage would hand them over, and the proof the text says they make
func (e *facEnv) prepared(inst, h, below uint64) (*preparedmessages.PreparedMessages, *wProof, interfaces.Block) {
	r := e.r
	if r.Intn(4) == 0 {
		e.rep.count("factory:vote-without-proof")
		return nil, nil, nil
	}
	pv := uint64(0)
	if below > 0 {
		pv = rU64(r) % below
	}
	hash1 := rBytes(r, e.rep)
	hash2 := hash1
	switch r.Intn(6) {
	case 0:
		hash2 = rBytes(r, e.rep)
		e.rep.count("factory:proof-halves-with-different-hashes")
	case 1:
		hash1 = nil
		e.rep.count("factory:proof-with-empty-preprepare-hash")
	}
	leader := uint64(r.Intn(6))
	blk := &vblock{height: primitives.BlockHeight(h), id: uint64(9000 + r.Intn(1000))}
	lf, _ := e.factory(inst, leader, 0)
	ppm := lf.CreatePreprepareMessage(primitives.BlockHeight(h), primitives.View(pv), blk, hash1)
	ppRef := wRef{inst, 1, h, pv, hash1}
	pRef := wRef{inst, 2, h, pv, hash2}
	proof := &wProof{PPRef: ppRef, PPSnd: e.sigOver(leader, h, bRef(ppRef).Build().Raw()), PRef: pRef}
	pm := &preparedmessages.PreparedMessages{PreprepareMessage: ppm}
	k := 1 + r.Intn(4)
	for j := 0; j < k; j++ {
		id := uint64(10 + j)
		pf, _ := e.factory(inst, id, 0)
		pm.PrepareMessages = append(pm.PrepareMessages, pf.CreatePrepareMessage(primitives.BlockHeight(h), primitives.View(pv), hash2))
		proof.PSnds = append(proof.PSnds, e.sigOver(id, h, bRef(pRef).Build().Raw()))
	}
	return pm, proof, blk
}

func (e *facEnv) voteHeaderRaw(v wVote) []byte {
	return bVote(v).SignedHeader.Build().Raw()
}

// reverify: every signature of the re-read message verifies over the re-read bytes it covers
func (e *facEnv) reverify(raw *interfaces.ConsensusRawMessage, exp *wMsg) {
	bad := func(what string) {
		e.rep.finding("C20", "factory-signature-does-not-verify-over-reread-bytes", fmt.Sprintf("%s built by the factory: %s no longer verifies after the round trip", exp.Kind, what), exp.coq())
	}
	ok := func(h primitives.BlockHeight, content []byte, s *protocol.SenderSignature) bool {
		return e.kr.verifyConsensus(h, content, s.MemberId(), s.Signature())
	}
	proofOK := func(p *protocol.PreparedProof, what string) {
		if p == nil || len(p.Raw()) == 0 {
			return
		}
		if !ok(p.PreprepareBlockRef().BlockHeight(), p.PreprepareBlockRef().Raw(), p.PreprepareSender()) {
			bad(what + " proof PREPREPARE signature")
		}
		it := p.PrepareSendersIterator()
		for it.HasNext() {
			if !ok(p.PrepareBlockRef().BlockHeight(), p.PrepareBlockRef().Raw(), it.NextPrepareSenders()) {
				bad(what + " proof PREPARE signature")
			}
		}
	}
	defer func() {
		if x := recover(); x != nil {
			e.rep.finding("C20", "factory-message-does-not-read-back", fmt.Sprintf("%s: reader panicked: %v", exp.Kind, x), exp.coq())
		}
	}()
	switch m := interfaces.ToConsensusMessage(raw).(type) {
	case *interfaces.PreprepareMessage:
		if !ok(m.BlockHeight(), m.Content().SignedHeader().Raw(), m.Content().Sender()) {
			bad("sender signature")
		}
	case *interfaces.PrepareMessage:
		if !ok(m.BlockHeight(), m.Content().SignedHeader().Raw(), m.Content().Sender()) {
			bad("sender signature")
		}
	case *interfaces.CommitMessage:
		if !ok(m.BlockHeight(), m.Content().SignedHeader().Raw(), m.Content().Sender()) {
			bad("sender signature")
		}
	case *interfaces.ViewChangeMessage:
		if !ok(m.BlockHeight(), m.Content().SignedHeader().Raw(), m.Content().Sender()) {
			bad("sender signature")
		}
		proofOK(m.Content().SignedHeader().PreparedProof(), "vote's")
	case *interfaces.NewViewMessage:
		if !ok(m.BlockHeight(), m.Content().SignedHeader().Raw(), m.Content().Sender()) {
			bad("sender signature")
		}
		pp := m.Content().Message()
		if !ok(pp.SignedHeader().BlockHeight(), pp.SignedHeader().Raw(), pp.Sender()) {
			bad("embedded PREPREPARE signature")
		}
		it := m.Content().SignedHeader().ViewChangeConfirmationsIterator()
		for it.HasNext() {
			v := it.NextViewChangeConfirmations()
			if !ok(v.SignedHeader().BlockHeight(), v.SignedHeader().Raw(), v.Sender()) {
				bad("embedded vote signature")
			}
			proofOK(v.SignedHeader().PreparedProof(), "embedded vote's")
		}
	}
}

func factoryCases(r *rand.Rand, rep *Report, kr *keyring, n int) []string {
	e := &facEnv{r, rep, kr}
	var cases []string
	for i := 0; i < n; i++ {
		inst, h, view := rU64(r), rU64(r), rU64(r)
		me := uint64(r.Intn(6))
		seed := rU64(r)
		f, km := e.factory(inst, me, seed)
		hash := rBytes(r, rep)
		var exp *wMsg
		var raw *interfaces.ConsensusRawMessage
		var wantBlock, gotBlock interfaces.Block
		func() {
			defer func() {
				if x := recover(); x != nil {
					rep.finding("C20", "factory-panicked", fmt.Sprint(x), nil)
					exp = nil
				}
			}()
			switch r.Intn(5) {
			case 0:
				blk := &vblock{height: primitives.BlockHeight(h), id: uint64(8000 + i)}
				ref := wRef{inst, 1, h, view, hash}
				exp = &wMsg{Kind: "PP", Ref: ref, Snd: e.sigOver(me, h, bRef(ref).Build().Raw())}
				raw = f.CreatePreprepareMessage(primitives.BlockHeight(h), primitives.View(view), blk, hash).ToConsensusRawMessage()
				wantBlock = blk
			case 1:
				ref := wRef{inst, 2, h, view, hash}
				exp = &wMsg{Kind: "P", Ref: ref, Snd: e.sigOver(me, h, bRef(ref).Build().Raw())}
				raw = f.CreatePrepareMessage(primitives.BlockHeight(h), primitives.View(view), hash).ToConsensusRawMessage()
			case 2:
				ref := wRef{inst, 3, h, view, hash}
				share := km.SignRandomSeed(context.Background(), primitives.BlockHeight(h), randomseed.RandomSeedToBytes(seed))
				exp = &wMsg{Kind: "C", Ref: ref, Snd: e.sigOver(me, h, bRef(ref).Build().Raw()), Share: []byte(share)}
				raw = f.CreateCommitMessage(primitives.BlockHeight(h), primitives.View(view), hash).ToConsensusRawMessage()
			case 3:
				pm, proof, blk := e.prepared(inst, h, view)
				v := wVote{inst, 5, h, view, proof, wSig{}}
				v.Snd = e.sigOver(me, h, e.voteHeaderRaw(v))
				exp = &wMsg{Kind: "VC", Vote: &v}
				raw = f.CreateViewChangeMessage(primitives.BlockHeight(h), primitives.View(view), pm).ToConsensusRawMessage()
				wantBlock = blk
			case 4:
				k := r.Intn(4)
				var confirmations []*protocol.ViewChangeMessageContentBuilder
				var votes []wVote
				for j := 0; j < k; j++ {
					voter := uint64(20 + j)
					vf, _ := e.factory(inst, voter, 0)
					pm, proof, _ := e.prepared(inst, h, view)
					v := wVote{inst, 5, h, view, proof, wSig{}}
					v.Snd = e.sigOver(voter, h, e.voteHeaderRaw(v))
					votes = append(votes, v)
					confirmations = append(confirmations, vf.CreateViewChangeMessageContentBuilder(primitives.BlockHeight(h), primitives.View(view), pm))
				}
				blk := &vblock{height: primitives.BlockHeight(h), id: uint64(8000 + i)}
				ref := wRef{inst, 1, h, view, hash}
				exp = &wMsg{Kind: "NV", Inst: inst, Type: 4, Height: h, View: view, Votes: votes, Ref: ref, PPSnd: e.sigOver(me, h, bRef(ref).Build().Raw())}
				hb := &protocol.NewViewHeaderBuilder{MessageType: protocol.LEAN_HELIX_NEW_VIEW, InstanceId: primitives.InstanceId(inst), BlockHeight: primitives.BlockHeight(h), View: primitives.View(view)}
				for _, v := range votes {
					hb.ViewChangeConfirmations = append(hb.ViewChangeConfirmations, bVote(v))
				}
				exp.Snd = e.sigOver(me, h, hb.Build().Raw())
				ppb := f.CreatePreprepareMessageContentBuilder(primitives.BlockHeight(h), primitives.View(view), blk, hash)
				raw = f.CreateNewViewMessage(primitives.BlockHeight(h), primitives.View(view), ppb, confirmations, blk).ToConsensusRawMessage()
				wantBlock = blk
			}
		}()
		if exp == nil {
			continue
		}
		rep.count("factory-built:" + exp.Kind)
		dec, pan := goDecode(raw.Content)
		if pan || dec == nil {
			rep.finding("C20", "factory-message-does-not-read-back", fmt.Sprintf("%s: reader panicked=%v", exp.Kind, pan), exp.coq())
			continue
		}
		if dec.coq() != exp.coq() {
			rep.finding("C20", "factory-message-changes-in-round-trip", fmt.Sprintf("%s: the factory was given %s, the message read back is %s", exp.Kind, clip([]string{exp.coq()}), clip([]string{dec.coq()})), exp.coq())
		}
		switch x := interfaces.ToConsensusMessage(raw).(type) {
		case *interfaces.PreprepareMessage:
			gotBlock = x.Block()
		case *interfaces.ViewChangeMessage:
			gotBlock = x.Block()
		case *interfaces.NewViewMessage:
			gotBlock = x.Block()
		}
		if wantBlock != gotBlock && !(wantBlock == nil && gotBlock == nil) {
			rep.finding("C20", "block-lost-in-round-trip", fmt.Sprintf("%s built by the factory with block %v, read back with block %v", exp.Kind, wantBlock, gotBlock), exp.coq())
		}
		e.reverify(raw, dec)
		cases = append(cases, fmt.Sprintf("(%s, %s, %s)", exp.coq(), cBytes(raw.Content), coqOpt(dec)))
	}
	return cases
}
