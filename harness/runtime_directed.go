package main

// directed scenarios of the runtime engine: one real node (NewLeanHelix + Run) whose worker is parked inside an SPI
// call by a gate the script controls, while the script feeds the main loop. They pin down the hand-off discipline
// between the two loops that random schedules only reach by luck: the one-slot channels keep the NEWEST trigger /
// sync, and the main loop cancels the worker's context BEFORE it forwards (Loops.v: li_wm_trig, li_wm_sync,
// slot_holds_newest; theorems C14_*, C15_released_by_*).

import (
	"bytes"
	"context"
	"fmt"
	"runtime/pprof"
	"strings"
	"sync"
	"sync/atomic"
	"time"

	leanhelix "github.com/orbs-network/lean-helix-go"
	"github.com/orbs-network/lean-helix-go/services/interfaces"
	"github.com/orbs-network/lean-helix-go/spec/types/go/primitives"
	"github.com/orbs-network/lean-helix-go/spec/types/go/protocol"
	"github.com/orbs-network/lean-helix-go/state"
)

type manualTrigger struct {
	mu  sync.Mutex
	ch  chan *interfaces.ElectionTrigger
	cb  func(primitives.BlockHeight, primitives.View, interfaces.OnElectionCallback)
	log *rtLog
}

func (t *manualTrigger) RegisterOnElection(h primitives.BlockHeight, v primitives.View, cb func(primitives.BlockHeight, primitives.View, interfaces.OnElectionCallback)) {
	t.mu.Lock()
	t.cb = cb
	t.mu.Unlock()
	t.log.add(0, "ARM", uint64(h), uint64(v), 0, false, "")
}
func (t *manualTrigger) ElectionChannel() chan *interfaces.ElectionTrigger { return t.ch }
func (t *manualTrigger) CalcTimeout(v primitives.View) time.Duration       { return time.Hour }
func (t *manualTrigger) Stop() {
	t.mu.Lock()
	t.cb = nil
	t.mu.Unlock()
	t.log.add(0, "STOP", 0, 0, 0, false, "")
}

// fire hands a trigger for (h, v) to the main loop (returns when the main loop has taken it, or after 2s)
func (t *manualTrigger) fire(h, v uint64, tag string) bool {
	tr := &interfaces.ElectionTrigger{Hv: state.NewHeightView(primitives.BlockHeight(h), primitives.View(v)), MoveToNextLeader: func() {
		t.log.add(0, "ACT", h, v, 0, false, tag)
		t.mu.Lock()
		cb := t.cb
		t.mu.Unlock()
		if cb != nil {
			cb(primitives.BlockHeight(h), primitives.View(v), nil)
		}
	}}
	select {
	case t.ch <- tr:
		t.log.add(0, "TRIG", h, v, 0, false, tag)
		return true
	case <-time.After(2 * time.Second):
		return false
	}
}

type gatedUtils struct {
	log      *rtLog
	mu       sync.Mutex
	gate     chan struct{}
	propGate chan struct{} // parks the next RequestNewBlockProposal
	lastCtx  context.Context
	nextID   uint64
}

func (g *gatedUtils) setGate() chan struct{} {
	g.mu.Lock()
	defer g.mu.Unlock()
	g.gate = make(chan struct{})
	return g.gate
}
func (g *gatedUtils) RequestNewBlockProposal(ctx context.Context, h primitives.BlockHeight, me primitives.MemberId, prev interfaces.Block) (interfaces.Block, primitives.BlockHash) {
	g.mu.Lock()
	g.nextID++
	b := &vblock{height: h, id: 5000 + g.nextID}
	gate := g.propGate
	g.propGate = nil
	if gate != nil {
		g.lastCtx = ctx
	}
	g.mu.Unlock()
	if gate != nil {
		g.log.add(0, "SPI+propose", uint64(h), 0, 0, ctx.Err() != nil, "")
		<-gate // deaf to ctx: it returns a block however late
		g.log.add(0, "SPI-propose", uint64(h), 0, 0, ctx.Err() != nil, "")
	}
	return b, blockHash(b)
}
func (g *gatedUtils) ValidateBlockProposal(ctx context.Context, h primitives.BlockHeight, leader primitives.MemberId, block interfaces.Block, hash primitives.BlockHash, prev interfaces.Block) error {
	g.mu.Lock()
	gate := g.gate
	g.gate = nil
	g.lastCtx = ctx
	g.mu.Unlock()
	g.log.add(0, "SPI+validate", uint64(h), 0, 0, ctx.Err() != nil, "")
	if gate != nil {
		<-gate // deliberately deaf to ctx: the worker stays busy however the main loop reacts
	}
	g.log.add(0, "SPI-validate", uint64(h), 0, 0, ctx.Err() != nil, "")
	return nil
}
func (g *gatedUtils) ValidateBlockCommitment(h primitives.BlockHeight, block interfaces.Block, hash primitives.BlockHash) bool {
	return true
}
func (g *gatedUtils) ctxOfCall() context.Context {
	g.mu.Lock()
	defer g.mu.Unlock()
	return g.lastCtx
}

type nullComm struct{ log *rtLog }

func (c *nullComm) SendConsensusMessage(ctx context.Context, recipients []primitives.MemberId, raw *interfaces.ConsensusRawMessage) error {
	var ty, h, v uint64
	if m := interfaces.ToConsensusMessage(raw); m != nil {
		ty, h, v = uint64(m.MessageType()), uint64(m.BlockHeight()), uint64(m.View())
	}
	c.log.add(0, "SEND", h, v, ty, false, "")
	return nil
}

type directedNode struct {
	log    *rtLog
	kr     *keyring
	cdc    *codec
	trig   *manualTrigger
	utils  *gatedUtils
	mem    *membership
	lh     *leanhelix.MainLoop
	ctx    context.Context
	cancel context.CancelFunc
	waiter interface{ WaitUntilShutdown(context.Context) }
}

func newDirectedNode(seed int64) *directedNode {
	d := &directedNode{log: &rtLog{start: time.Now()}, kr: newKeyring(seed)}
	d.cdc = newCodec(d.kr)
	d.trig = &manualTrigger{ch: make(chan *interfaces.ElectionTrigger), log: d.log}
	d.utils = &gatedUtils{log: d.log}
	const N = 4
	committee := func(h primitives.BlockHeight) []interfaces.CommitteeMember {
		var ms []interfaces.CommitteeMember
		k := int(uint64(h) % N)
		for j := 0; j < N; j++ {
			ms = append(ms, interfaces.CommitteeMember{Id: idBytes(uint64((k + j) % N)), Weight: 1})
		}
		return ms
	}
	d.mem = &membership{me: idBytes(0), committee: committee}
	cfg := &interfaces.Config{
		InstanceId:              rtInst,
		Communication:           &nullComm{d.log},
		Membership:              d.mem,
		BlockUtils:              d.utils,
		KeyManager:              &keyManager{d.kr, idBytes(0)},
		OverrideElectionTrigger: d.trig,
	}
	d.ctx, d.cancel = context.WithCancel(context.Background())
	d.lh = leanhelix.NewLeanHelix(cfg, func(ctx context.Context, b interfaces.Block, p []byte) error {
		d.log.add(0, "CM", uint64(b.Height()), 0, 0, false, "")
		return nil
	}, func(ctx context.Context, h primitives.BlockHeight, prev interfaces.Block, lead bool) {
		d.log.add(0, "NR", uint64(h), 0, 0, lead, "")
	})
	d.waiter = d.lh.Run(d.ctx)
	return d
}

func (d *directedNode) waitFor(kind string, h, v uint64, within time.Duration) bool {
	deadline := time.Now().Add(within)
	for time.Now().Before(deadline) {
		for _, e := range d.log.snapshot() {
			if e.Kind == kind && e.H == h && e.V == v {
				return true
			}
		}
		time.Sleep(time.Millisecond)
	}
	return false
}
func (d *directedNode) stop() bool {
	d.cancel()
	done := make(chan struct{})
	go func() {
		t, c := context.WithTimeout(context.Background(), 8*time.Second) // WaitUntilShutdown gives up (and returns) when this expires: it must outlast the verdict below
		defer c()
		d.waiter.WaitUntilShutdown(t)
		close(done)
	}()
	select {
	case <-done:
		return true
	case <-time.After(4500 * time.Millisecond):
		return false
	}
}
func (d *directedNode) replay() interface{} {
	return map[string]interface{}{"script": "directed", "events": d.log.snapshot()}
}
func (d *directedNode) preprepare(h, v, leader, blockID uint64) *interfaces.ConsensusRawMessage {
	return d.cdc.encode(&aMsg{Kind: "PP", Ref: aRef{Type: uint64(protocol.LEAN_HELIX_PREPREPARE), Inst: rtInst, Height: h, View: v, Hash: blockID},
		Snd: aSig{Id: leader, Ok: true}, Block: &aBlock{Height: h, Id: blockID}})
}
func ctxDoneWithin(ctx context.Context, d time.Duration) bool {
	if ctx == nil {
		return false
	}
	select {
	case <-ctx.Done():
		return true
	case <-time.After(d):
		return false
	}
}

// the election slot keeps the newest trigger; the worker's context is cancelled before the forward
func directedElectionSlot(rep *Report, seed int64, gap time.Duration) {
	d := newDirectedNode(seed)
	fail := func(prop, sig, detail string) { rep.finding(prop, sig, detail, d.replay()) }
	defer func() {
		if !d.stop() {
			fail("C16", "shutdown-hangs", "directed election scenario: WaitUntilShutdown did not return")
		}
	}()
	rep.count("runtime:directed-election-slot")
	go d.lh.UpdateState(d.ctx, nil, nil)
	if !d.waitFor("NR", 1, 0, 3*time.Second) {
		fail("C14", "sync-no-effect", "directed: UpdateState(genesis) did not start height 1")
		return
	}
	if !d.trig.fire(1, 0, "first") || !d.waitFor("ARM", 1, 1, 3*time.Second) {
		fail("C19", "newest-trigger-lost", "directed: the trigger for the current (1,0) did not lead to the election")
		return
	}
	gate := d.utils.setGate()
	var opened int32
	open := func() {
		if atomic.CompareAndSwapInt32(&opened, 0, 1) {
			close(gate)
		}
	}
	defer open()
	go d.lh.HandleConsensusMessage(d.ctx, d.preprepare(1, 1, 2, 777)) // leader of (1,1) is member 2
	if !d.waitFor("SPI+validate", 1, 0, 3*time.Second) {
		rep.count("runtime:directed-setup-failed")
		return
	}
	callCtx := d.utils.ctxOfCall()
	// a late trigger of the superseded (1,0), then the trigger of the current (1,1), while the worker is busy
	if !d.trig.fire(1, 0, "stale") {
		fail("C14", "main-loop-blocked", "directed: the main loop did not take an election trigger while the worker was inside an SPI call")
		return
	}
	if callCtx != nil && callCtx.Err() != nil {
		fail("C15", "current-context-cancelled-by-stale-trigger", "directed: the context of the current (1,1) was cancelled by a trigger for the older (1,0)")
	}
	time.Sleep(gap)
	if !d.trig.fire(1, 1, "current") {
		fail("C14", "main-loop-blocked", "directed: the main loop did not take a second election trigger while the worker was inside an SPI call")
		return
	}
	if !ctxDoneWithin(callCtx, time.Second) {
		fail("C15", "context-not-cancelled-by-election", "directed: the context of the SPI call for (1,1) was not cancelled within 1s of the main loop taking the election trigger for (1,1)")
	}
	time.Sleep(gap)
	open()
	if !d.waitFor("ACT", 1, 1, 3*time.Second) {
		fail("C19", "newest-trigger-lost", "directed: trigger (1,1) was handed to the main loop while the worker was busy and a late trigger for (1,0) occupied the hand-off slot; the election for (1,1) never happened")
		return
	}
	for _, e := range d.log.snapshot() {
		if e.Kind == "ACT" && e.S == "stale" {
			fail("C19", "stale-trigger-acted-upon", "directed: the late trigger for (1,0) was acted upon at (1,1)")
		}
		if e.Kind == "SEND" && e.A == uint64(protocol.LEAN_HELIX_PREPARE) && e.V == 1 {
			fail("C15", "result-under-cancelled-context-used", "directed: a PREPARE for (1,1) was sent although the validation returned after its context was cancelled")
		}
	}
}

// the sync slot keeps the newest block; the worker's context is cancelled before the forward
func directedSyncSlot(rep *Report, seed int64, gap time.Duration) {
	d := newDirectedNode(seed)
	fail := func(prop, sig, detail string) { rep.finding(prop, sig, detail, d.replay()) }
	defer func() {
		if !d.stop() {
			fail("C16", "shutdown-hangs", "directed sync scenario: WaitUntilShutdown did not return")
		}
	}()
	rep.count("runtime:directed-sync-slot")
	go d.lh.UpdateState(d.ctx, nil, nil)
	if !d.waitFor("NR", 1, 0, 3*time.Second) {
		fail("C14", "sync-no-effect", "directed: UpdateState(genesis) did not start height 1")
		return
	}
	gate := d.utils.setGate()
	var opened int32
	open := func() {
		if atomic.CompareAndSwapInt32(&opened, 0, 1) {
			close(gate)
		}
	}
	defer open()
	go d.lh.HandleConsensusMessage(d.ctx, d.preprepare(1, 0, 1, 778)) // leader of (1,0) is member 1
	if !d.waitFor("SPI+validate", 1, 0, 3*time.Second) {
		rep.count("runtime:directed-setup-failed")
		return
	}
	callCtx := d.utils.ctxOfCall()
	sync := func(h uint64) bool {
		res := make(chan error, 1)
		go func() {
			res <- d.lh.UpdateState(d.ctx, &vblock{height: primitives.BlockHeight(h), id: 9000 + h}, d.cdc.syncProof(h))
		}()
		select {
		case err := <-res:
			d.log.add(0, "SYNCRET", h, 0, 0, err == nil, "")
			return err == nil
		case <-time.After(2 * time.Second):
			fail("C14", "updatestate-blocked", fmt.Sprintf("directed: UpdateState(block %d) did not return within 2s while the worker was inside an SPI call", h))
			return false
		}
	}
	if !sync(3) {
		return
	}
	if !ctxDoneWithin(callCtx, time.Second) {
		fail("C15", "context-not-cancelled-by-sync", "directed: the context of the SPI call for height 1 was not cancelled within 1s of UpdateState(block 3) returning")
	}
	time.Sleep(gap)
	if !sync(5) {
		return
	}
	time.Sleep(gap)
	sync(4) // older than the newest: must be filtered
	sync(5) // repeated
	time.Sleep(gap)
	open()
	deadline := time.Now().Add(3 * time.Second)
	for time.Now().Before(deadline) && uint64(d.lh.State().Height()) < 6 {
		time.Sleep(time.Millisecond)
	}
	time.Sleep(20 * time.Millisecond)
	if h := uint64(d.lh.State().Height()); h != 6 {
		fail("C14", "newest-sync-lost", fmt.Sprintf("directed: UpdateState(3), UpdateState(5), UpdateState(4), UpdateState(5) returned nil while the worker was busy; the node ended at height %d instead of 6", h))
	}
	for _, e := range d.log.snapshot() {
		if e.Kind == "NR" && e.H == 5 {
			fail("C14", "stale-sync-took-effect", "directed: the filtered sync of block 4 started a round")
		}
		if e.Kind == "SEND" && e.A == uint64(protocol.LEAN_HELIX_PREPARE) && e.H == 1 {
			fail("C15", "result-under-cancelled-context-used", "directed: a PREPARE for height 1 was sent although the validation returned after its context was cancelled by a sync")
		}
		if e.Kind == "SEND" && e.A == uint64(protocol.LEAN_HELIX_PREPREPARE) && e.V == 0 && e.H > 1 {
			fail("C14", "first-leader-after-sync", fmt.Sprintf("directed: PREPREPARE at view 0 of height %d, a round entered by node sync", e.H))
		}
	}
}

// a proposal for a view the node has not entered must not park the worker in an SPI call whose context the election of
// the node's own view does not cancel (F15: HandlePrePrepare validated the block before comparing the views)
func directedFutureViewProposal(rep *Report, seed int64) {
	d := newDirectedNode(seed)
	fail := func(prop, sig, detail string) { rep.finding(prop, sig, detail, d.replay()) }
	defer func() {
		if !d.stop() {
			fail("C16", "shutdown-hangs", "directed future-view scenario: WaitUntilShutdown did not return")
		}
	}()
	rep.count("runtime:directed-future-view-proposal")
	go d.lh.UpdateState(d.ctx, nil, nil)
	if !d.waitFor("NR", 1, 0, 3*time.Second) {
		fail("C14", "sync-no-effect", "directed: UpdateState(genesis) did not start height 1")
		return
	}
	gate := d.utils.setGate()
	var opened int32
	open := func() {
		if atomic.CompareAndSwapInt32(&opened, 0, 1) {
			close(gate)
		}
	}
	defer open()
	// the node is in (1,0); member 2 leads (1,1) and proposes for it already
	go d.lh.HandleConsensusMessage(d.ctx, d.preprepare(1, 1, 2, 778))
	if !d.waitFor("SPI+validate", 1, 0, 400*time.Millisecond) {
		rep.count("runtime:directed-future-view-proposal-not-validated")
		return
	}
	callCtx := d.utils.ctxOfCall()
	if !d.trig.fire(1, 0, "own-view") {
		fail("C14", "main-loop-blocked", "directed: the main loop did not take an election trigger while the worker was inside an SPI call")
		return
	}
	if !ctxDoneWithin(callCtx, time.Second) {
		fail("C15", "spi-call-not-released-by-own-election", "directed: in view (1,0) the node validates a proposal for view (1,1) under a context that the election of (1,0) does not cancel; the worker stays in the SPI call and the node is stalled")
	}
}

// the block of a NEW_VIEW for a later view is validated before the node moves there: the call must still be released
// by the election of the view the node is in (F15, second half)
func directedNewViewValidation(rep *Report, seed int64) {
	d := newDirectedNode(seed)
	fail := func(prop, sig, detail string) { rep.finding(prop, sig, detail, d.replay()) }
	defer func() {
		if !d.stop() {
			fail("C16", "shutdown-hangs", "directed new-view scenario: WaitUntilShutdown did not return")
		}
	}()
	rep.count("runtime:directed-new-view-validation")
	go d.lh.UpdateState(d.ctx, nil, nil)
	if !d.waitFor("NR", 1, 0, 3*time.Second) {
		fail("C14", "sync-no-effect", "directed: UpdateState(genesis) did not start height 1")
		return
	}
	gate := d.utils.setGate()
	var opened int32
	open := func() {
		if atomic.CompareAndSwapInt32(&opened, 0, 1) {
			close(gate)
		}
	}
	defer open()
	// member 2 leads (1,1); votes of members 1, 2, 3 (no locks), a fresh block
	var votes []aVote
	for _, id := range []uint64{1, 2, 3} {
		votes = append(votes, aVote{uint64(protocol.LEAN_HELIX_VIEW_CHANGE), rtInst, 1, 1, nil, aSig{Id: id, Ok: true}})
	}
	nv := d.cdc.encode(&aMsg{Kind: "NV", NVType: uint64(protocol.LEAN_HELIX_NEW_VIEW), NVInst: rtInst, NVHeight: 1, NVView: 1, Votes: votes, Snd: aSig{Id: 2, Ok: true},
		Ref: aRef{Type: uint64(protocol.LEAN_HELIX_PREPREPARE), Inst: rtInst, Height: 1, View: 1, Hash: 779}, PPSnd: aSig{Id: 2, Ok: true}, Block: &aBlock{Height: 1, Id: 779}})
	go d.lh.HandleConsensusMessage(d.ctx, nv)
	if !d.waitFor("SPI+validate", 1, 0, 2*time.Second) {
		rep.count("runtime:directed-setup-failed")
		return
	}
	callCtx := d.utils.ctxOfCall()
	if !d.trig.fire(1, 0, "own-view") {
		fail("C14", "main-loop-blocked", "directed: the main loop did not take an election trigger while the worker was inside an SPI call")
		return
	}
	if !ctxDoneWithin(callCtx, time.Second) {
		fail("C15", "spi-call-not-released-by-own-election", "directed: in view (1,0) the node validates the block of a NEW_VIEW for (1,1) under a context that the election of (1,0) does not cancel; the worker stays in the SPI call and the node is stalled")
	}
	open()
	if !d.waitFor("ACT", 1, 0, 3*time.Second) {
		fail("C19", "newest-trigger-lost", "directed: the election of (1,0) never happened after the validation returned")
		return
	}
	for _, e := range d.log.snapshot() {
		if e.Kind == "SEND" && e.A == uint64(protocol.LEAN_HELIX_PREPARE) && e.V == 1 {
			fail("C15", "result-under-cancelled-context-used", "directed: a PREPARE for (1,1) was sent although the validation returned after its context was cancelled")
		}
	}
}

// a worker parked in an SPI call does not stop the main loop from taking syncs and election triggers, however many
// messages arrive meanwhile (the worker's inbox holds 1000; what does not fit is dropped, not waited for)
func directedInboxFlood(rep *Report, seed int64) {
	d := newDirectedNode(seed)
	fail := func(prop, sig, detail string) { rep.finding(prop, sig, detail, d.replay()) }
	defer func() {
		if !d.stop() {
			fail("C16", "shutdown-hangs", "directed flood scenario: WaitUntilShutdown did not return")
			return
		}
		time.Sleep(100 * time.Millisecond)
		var b bytes.Buffer
		pprof.Lookup("goroutine").WriteTo(&b, 1)
		if k := strings.Count(b.String(), "lean-helix-go.(*MainLoop).run"); k > 0 {
			fail("C16", "goroutine-leak", fmt.Sprintf("directed flood scenario: %d goroutine(s) started by the main loop are still alive after WaitUntilShutdown returned", k))
		}
	}()
	rep.count("runtime:directed-inbox-flood")
	go d.lh.UpdateState(d.ctx, nil, nil)
	if !d.waitFor("NR", 1, 0, 3*time.Second) {
		fail("C14", "sync-no-effect", "directed: UpdateState(genesis) did not start height 1")
		return
	}
	gate := d.utils.setGate()
	var opened int32
	open := func() {
		if atomic.CompareAndSwapInt32(&opened, 0, 1) {
			close(gate)
		}
	}
	defer open()
	go d.lh.HandleConsensusMessage(d.ctx, d.preprepare(1, 0, 1, 778))
	if !d.waitFor("SPI+validate", 1, 0, 3*time.Second) {
		rep.count("runtime:directed-setup-failed")
		return
	}
	// 1300 well-formed messages while the worker cannot take any
	flood := make(chan struct{})
	go func() {
		defer close(flood)
		for i := 0; i < 1300; i++ {
			m := d.cdc.encode(&aMsg{Kind: "P", Ref: aRef{Type: uint64(protocol.LEAN_HELIX_PREPARE), Inst: rtInst, Height: 1, View: 0, Hash: 778}, Snd: aSig{Id: uint64(2 + i%2), Ok: true}})
			c, cancel := context.WithTimeout(d.ctx, 2*time.Second)
			d.lh.HandleConsensusMessage(c, m)
			cancel()
		}
	}()
	select {
	case <-flood:
	case <-time.After(4 * time.Second):
		fail("C14", "main-loop-blocked", "directed: the main loop stopped taking messages while the worker was inside an SPI call (more messages than the worker's inbox holds)")
		fail("C12", "wedged-by-message-burst", "directed: 1300 well-formed messages while the worker was inside an SPI call wedged the node: the main loop no longer takes messages, syncs or election triggers")
		// ... and with the main loop stuck nothing can cancel the context the worker's SPI call waits on: neither the election
		// trigger of its view nor a sync is taken any more
		rel := make(chan error, 1)
		go func() {
			c, cancel := context.WithTimeout(d.ctx, 1500*time.Millisecond)
			defer cancel()
			rel <- d.lh.UpdateState(c, &vblock{height: 3, id: 9003}, d.cdc.syncProof(3))
		}()
		select {
		case err := <-rel:
			if err != nil {
				fail("C15", "spi-not-released-main-loop-blocked", fmt.Sprintf("directed: the worker sits in ValidateBlockProposal of (1,0); after a burst of messages a sync to block 3 is not even accepted (%v): the call's context is never cancelled", err))
			}
		case <-time.After(3 * time.Second):
			fail("C15", "spi-not-released-main-loop-blocked", "directed: the worker sits in ValidateBlockProposal of (1,0); after a burst of messages UpdateState(block 3) does not return: the call's context is never cancelled")
		}
		return
	}
	res := make(chan error, 1)
	go func() { res <- d.lh.UpdateState(d.ctx, &vblock{height: 3, id: 9003}, d.cdc.syncProof(3)) }()
	select {
	case err := <-res:
		if err != nil {
			fail("C14", "sync-no-effect", fmt.Sprintf("directed: UpdateState(block 3) after a message flood returned %v", err))
			return
		}
	case <-time.After(2 * time.Second):
		fail("C14", "updatestate-blocked", "directed: UpdateState(block 3) did not return within 2s after more messages arrived than the busy worker's inbox holds")
		return
	}
	open()
	deadline := time.Now().Add(3 * time.Second)
	for time.Now().Before(deadline) && uint64(d.lh.State().Height()) < 4 {
		time.Sleep(time.Millisecond)
	}
	if h := uint64(d.lh.State().Height()); h != 4 {
		fail("C14", "sync-no-effect", fmt.Sprintf("directed: UpdateState(block 3) returned nil after a message flood; the node ended at height %d instead of 4", h))
	}
}

// a leader elected by view change whose RequestNewBlockProposal comes back after the election of its view: the block was
// produced under a cancelled context and must not be broadcast in a NEW_VIEW (C15, last clause)
func directedLateProposalOfElectedLeader(rep *Report, seed int64) {
	d := newDirectedNode(seed)
	fail := func(prop, sig, detail string) { rep.finding(prop, sig, detail, d.replay()) }
	defer func() {
		if !d.stop() {
			fail("C16", "shutdown-hangs", "directed late-proposal scenario: WaitUntilShutdown did not return")
		}
	}()
	rep.count("runtime:directed-late-proposal-of-elected-leader")
	go d.lh.UpdateState(d.ctx, nil, nil)
	if !d.waitFor("NR", 1, 0, 3*time.Second) {
		fail("C14", "sync-no-effect", "directed: UpdateState(genesis) did not start height 1")
		return
	}
	// at height 1 the committee order is 1, 2, 3, 0: member 0 (this node) leads view 3
	pg := make(chan struct{})
	d.utils.mu.Lock()
	d.utils.propGate = pg
	d.utils.mu.Unlock()
	var opened int32
	open := func() {
		if atomic.CompareAndSwapInt32(&opened, 0, 1) {
			close(pg)
		}
	}
	defer open()
	for _, id := range []uint64{1, 2, 3} {
		vc := d.cdc.encode(&aMsg{Kind: "VC", Vote: &aVote{uint64(protocol.LEAN_HELIX_VIEW_CHANGE), rtInst, 1, 3, nil, aSig{Id: id, Ok: true}}})
		go d.lh.HandleConsensusMessage(d.ctx, vc)
	}
	if !d.waitFor("SPI+propose", 1, 0, 3*time.Second) {
		rep.count("runtime:directed-setup-failed")
		return
	}
	callCtx := d.utils.ctxOfCall()
	if !d.waitFor("ARM", 1, 3, time.Second) {
		rep.count("runtime:directed-setup-failed")
		return
	}
	if !d.trig.fire(1, 3, "own-view") {
		fail("C14", "main-loop-blocked", "directed: the main loop did not take an election trigger while the worker was inside an SPI call")
		return
	}
	if !ctxDoneWithin(callCtx, time.Second) {
		fail("C15", "context-not-cancelled-by-election", "directed: the context of RequestNewBlockProposal for (1,3) was not cancelled within 1s of the election trigger for (1,3)")
	}
	open()
	if !d.waitFor("ACT", 1, 3, 3*time.Second) {
		fail("C19", "newest-trigger-lost", "directed: the election of (1,3) never happened after the proposal call returned")
		return
	}
	time.Sleep(20 * time.Millisecond)
	for _, e := range d.log.snapshot() {
		if e.Kind == "SEND" && e.A == uint64(protocol.LEAN_HELIX_NEW_VIEW) && e.V == 3 {
			fail("C15", "proposal-after-cancel", "directed: a NEW_VIEW for (1,3) was broadcast although RequestNewBlockProposal returned after its context was cancelled by the election of (1,3)")
		}
	}
}

// an election trigger that is left over from a height the node has left must not touch the contexts of the height it is
// working on now (C15: events about older positions cancel nothing current)
func directedStaleHeightTrigger(rep *Report, seed int64) {
	d := newDirectedNode(seed)
	fail := func(prop, sig, detail string) { rep.finding(prop, sig, detail, d.replay()) }
	defer func() {
		if !d.stop() {
			fail("C16", "shutdown-hangs", "directed stale-height scenario: WaitUntilShutdown did not return")
		}
	}()
	rep.count("runtime:directed-stale-height-trigger")
	go d.lh.UpdateState(d.ctx, nil, nil)
	if !d.waitFor("NR", 1, 0, 3*time.Second) {
		fail("C14", "sync-no-effect", "directed: UpdateState(genesis) did not start height 1")
		return
	}
	res := make(chan error, 1)
	go func() { res <- d.lh.UpdateState(d.ctx, &vblock{height: 2, id: 9002}, d.cdc.syncProof(2)) }()
	select {
	case <-res:
	case <-time.After(2 * time.Second):
		fail("C14", "updatestate-blocked", "directed: UpdateState(block 2) did not return within 2s")
		return
	}
	if !d.waitFor("NR", 3, 0, 3*time.Second) {
		fail("C14", "sync-no-effect", "directed: UpdateState(block 2) did not start height 3")
		return
	}
	gate := d.utils.setGate()
	var opened int32
	open := func() {
		if atomic.CompareAndSwapInt32(&opened, 0, 1) {
			close(gate)
		}
	}
	defer open()
	go d.lh.HandleConsensusMessage(d.ctx, d.preprepare(3, 0, 3, 781)) // committee order at height 3 is 3, 0, 1, 2: member 3 leads view 0
	if !d.waitFor("SPI+validate", 3, 0, 3*time.Second) {
		rep.count("runtime:directed-setup-failed")
		return
	}
	callCtx := d.utils.ctxOfCall()
	if !d.trig.fire(1, 0, "stale-height") {
		fail("C14", "main-loop-blocked", "directed: the main loop did not take an election trigger while the worker was inside an SPI call")
		return
	}
	time.Sleep(100 * time.Millisecond)
	if callCtx != nil && callCtx.Err() != nil {
		fail("C15", "current-context-cancelled-by-stale-trigger", "directed: the context of the SPI call for (3,0) was cancelled by a late election trigger of (1,0), a height the node has left")
	}
	open()
	if !d.waitFor("SEND", 3, 0, 2*time.Second) {
		fail("C15", "current-context-cancelled-by-stale-trigger", "directed: after a late election trigger of (1,0) the node at (3,0) did not PREPARE the proposal it had validated")
	}
}

// a node that is not in the committee of the next height has no term there: the timer of the term it leaves must be
// stopped on the way out, or it is still armed when the node shuts down (C16)
func directedLeaveCommitteeThenShutdown(rep *Report, seed int64) {
	log := &rtLog{start: time.Now()}
	kr := newKeyring(seed)
	committee := func(h primitives.BlockHeight) []interfaces.CommitteeMember {
		var ms []interfaces.CommitteeMember
		for j := 0; j < 4; j++ {
			id := uint64(j)
			if h >= 2 {
				id = uint64(j + 1) // member 0 is out from height 2 on
			}
			ms = append(ms, interfaces.CommitteeMember{Id: idBytes(id), Weight: 1})
		}
		return ms
	}
	cfg := &interfaces.Config{
		InstanceId:          rtInst,
		Communication:       &nullComm{log},
		Membership:          &membership{me: idBytes(0), committee: committee},
		BlockUtils:          &gatedUtils{log: log},
		KeyManager:          &keyManager{kr, idBytes(0)},
		ElectionTimeoutOnV0: 60 * time.Millisecond,
	}
	ctx, cancel := context.WithCancel(context.Background())
	lh := leanhelix.NewLeanHelix(cfg, func(ctx context.Context, b interfaces.Block, p []byte) error { return nil },
		func(ctx context.Context, h primitives.BlockHeight, prev interfaces.Block, lead bool) {
			log.add(0, "NR", uint64(h), 0, 0, lead, "")
		})
	waiter := lh.Run(ctx)
	rep.count("runtime:directed-leave-committee-then-shutdown")
	cdc := newCodec(kr)
	go lh.UpdateState(ctx, nil, nil)
	deadline := time.Now().Add(2 * time.Second)
	for time.Now().Before(deadline) && uint64(lh.State().Height()) < 1 {
		time.Sleep(time.Millisecond)
	}
	lh.UpdateState(ctx, &vblock{height: 1, id: 9001}, cdc.syncProof(1))
	deadline = time.Now().Add(2 * time.Second)
	for time.Now().Before(deadline) && uint64(lh.State().Height()) < 2 {
		time.Sleep(time.Millisecond)
	}
	cancel()
	done := make(chan struct{})
	go func() {
		t, c := context.WithTimeout(context.Background(), 4*time.Second)
		defer c()
		waiter.WaitUntilShutdown(t)
		close(done)
	}()
	select {
	case <-done:
	case <-time.After(4500 * time.Millisecond):
		rep.finding("C16", "shutdown-hangs", "directed leave-committee scenario: WaitUntilShutdown did not return", map[string]interface{}{"script": "leave-committee"})
		return
	}
	time.Sleep(150 * time.Millisecond) // the timer of height 1 (60 ms) would have expired by now
	var b bytes.Buffer
	pprof.Lookup("goroutine").WriteTo(&b, 1)
	if k := strings.Count(b.String(), "electiontrigger.triggerElections"); k > 0 {
		rep.finding("C16", "timer-fires-after-shutdown", fmt.Sprintf("directed: the node left the committee at height 2 and was shut down; the election timer of height 1 fired afterwards (%d goroutine(s) parked in triggerElections)", k), map[string]interface{}{"script": "leave-committee", "events": log.snapshot()})
	}
}

// a node that is being caught up by a fast stream of UpdateState calls (each newer block supersedes the one still
// waiting in the worker's slot) and is then shut down: the main loop must not be caught between "the slot is full" and
// "the worker has just emptied it" - WaitUntilShutdown returns, UpdateState keeps returning (C16, C14)
func directedSyncStreamThenShutdown(rep *Report, seed int64) {
	d := newDirectedNode(seed)
	fail := func(prop, sig, detail string) { rep.finding(prop, sig, detail, map[string]interface{}{"script": "sync-stream-then-shutdown"}) }
	rep.count("runtime:directed-sync-stream-then-shutdown")
	go d.lh.UpdateState(d.ctx, nil, nil)
	if !d.waitFor("NR", 1, 0, 3*time.Second) {
		rep.count("runtime:directed-setup-failed")
		d.stop()
		return
	}
	var next uint64 = 1
	var accepted, blocked int64
	stopFlood := make(chan struct{})
	var wg sync.WaitGroup
	var proofMu sync.Mutex
	for g := 0; g < 3; g++ {
		wg.Add(1)
		go func() {
			defer wg.Done()
			for {
				select {
				case <-stopFlood:
					return
				default:
				}
				h := atomic.AddUint64(&next, 1)
				c, cancel := context.WithTimeout(d.ctx, time.Second)
				proofMu.Lock() // the codec's proof cache is not made for several goroutines
				proof := d.cdc.syncProof(h)
				proofMu.Unlock()
				err := d.lh.UpdateState(c, &vblock{height: primitives.BlockHeight(h), id: 9000 + h}, proof)
				if c.Err() == context.DeadlineExceeded {
					atomic.AddInt64(&blocked, 1)
					cancel()
					return
				}
				cancel()
				if err == nil {
					atomic.AddInt64(&accepted, 1)
				}
			}
		}()
	}
	time.Sleep(1200 * time.Millisecond)
	close(stopFlood)
	wg.Wait()
	rep.count(fmt.Sprintf("runtime:sync-stream-accepted-%dk", atomic.LoadInt64(&accepted)/1000))
	if atomic.LoadInt64(&blocked) > 0 {
		fail("C14", "updatestate-blocked", fmt.Sprintf("directed: after %d accepted syncs in a row an UpdateState call did not return within 1 s: the main loop no longer takes requests", atomic.LoadInt64(&accepted)))
	}
	if !d.stop() {
		fail("C16", "shutdown-hangs", fmt.Sprintf("directed: a stream of %d accepted syncs, then cancellation: WaitUntilShutdown did not return within 4.5 s", atomic.LoadInt64(&accepted)))
	}
}

// a node whose Membership cannot produce the committee of the next height (the service behind it is down: an error that
// is not a context error) keeps asking; when it is shut down in that state the asking stops and WaitUntilShutdown
// returns (C16)
func directedFailingMembershipThenShutdown(rep *Report, seed int64) {
	d := newDirectedNode(seed)
	rep.count("runtime:directed-failing-membership-then-shutdown")
	go d.lh.UpdateState(d.ctx, nil, nil)
	if !d.waitFor("NR", 1, 0, 3*time.Second) {
		rep.count("runtime:directed-setup-failed")
		d.stop()
		return
	}
	atomic.StoreUint64(&d.mem.failFrom, 2)
	go d.lh.UpdateState(d.ctx, &vblock{height: 1, id: 9001}, d.cdc.syncProof(1))
	time.Sleep(300 * time.Millisecond) // the worker is now polling for the committee of height 2
	before := atomic.LoadInt64(&d.mem.calls)
	if !d.stop() {
		rep.finding("C16", "shutdown-hangs", fmt.Sprintf("directed: the Membership keeps failing for height 2 (not a context error); after cancellation WaitUntilShutdown did not return within 4.5 s (%d committee requests before, %d after the cancellation)", before, atomic.LoadInt64(&d.mem.calls)-before), map[string]interface{}{"script": "failing-membership-then-shutdown"})
		rep.finding("C15", "spi-loop-not-released", fmt.Sprintf("directed: the committee request of height 2 keeps failing; after the Run context was cancelled the worker went on calling RequestOrderedCommittee under the cancelled context (%d calls after the cancellation) instead of returning", atomic.LoadInt64(&d.mem.calls)-before), map[string]interface{}{"script": "failing-membership-then-shutdown"})
		return
	}
	after := atomic.LoadInt64(&d.mem.calls)
	time.Sleep(300 * time.Millisecond)
	if later := atomic.LoadInt64(&d.mem.calls); later > after {
		rep.finding("C16", "activity-after-shutdown", fmt.Sprintf("directed: %d committee requests after WaitUntilShutdown returned", later-after), map[string]interface{}{"script": "failing-membership-then-shutdown"})
	}
}

func runDirected(rep *Report, seed int64, thorough bool) {
	directedFailingMembershipThenShutdown(rep, seed+107)
	directedSyncStreamThenShutdown(rep, seed+106)
	directedStaleHeightTrigger(rep, seed+104)
	directedLeaveCommitteeThenShutdown(rep, seed+105)
	directedLateProposalOfElectedLeader(rep, seed+103)
	directedInboxFlood(rep, seed+102)
	directedFutureViewProposal(rep, seed+100)
	directedNewViewValidation(rep, seed+101)
	gaps := []time.Duration{0, 2 * time.Millisecond, 10 * time.Millisecond}
	if thorough {
		gaps = append(gaps, 200*time.Microsecond, time.Millisecond, 5*time.Millisecond, 30*time.Millisecond)
	}
	for i, g := range gaps {
		directedElectionSlot(rep, seed+int64(i), g)
		directedSyncSlot(rep, seed+int64(i), g)
	}
}
