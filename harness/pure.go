package main

// pure engine: quorum arithmetic, leader function, CalcTimeout on tables of inputs (C06, C18, C19a).

import (
	"fmt"
	"math/big"
	"math/rand"
	"path/filepath"
	"time"

	Electiontrigger "github.com/orbs-network/lean-helix-go/services/electiontrigger"
	"github.com/orbs-network/lean-helix-go/services/interfaces"
	"github.com/orbs-network/lean-helix-go/services/quorum"
	"github.com/orbs-network/lean-helix-go/services/termincommittee"
	"github.com/orbs-network/lean-helix-go/spec/types/go/primitives"
)

func init() {
	engines["quorum"] = runQuorum
	engines["leader"] = runLeader
	engines["timeout"] = runTimeout
}

const idPrefix = "lean-helix-validator-"

func idBytes(n uint64) primitives.MemberId {
	// longer than a 20-byte address and identical in the first 21 bytes for all members: whatever is keyed by a prefix
	// or a fixed-size copy of a member id collides on these
	return primitives.MemberId(fmt.Sprintf("%s%05d", idPrefix, n))
}

type qCase struct {
	Ids     []uint64 `json:"ids"`
	Weights []uint64 `json:"weights"`
	Subset  []uint64 `json:"subset"`
}

// qEnc: how the quorum engine writes an abstract member id as bytes. Member ids are opaque byte strings of any length;
// the encoders are injective, so the Go functions must behave as on the abstract ids whatever the shape.
var qEnc = idBytes

var qEncoders = []func(uint64) primitives.MemberId{
	idBytes,
	func(n uint64) primitives.MemberId { // very short ids that differ only by trailing zero bytes
		b := []byte{byte(1 + (n/3)%250), byte(n / 750)}
		if n/750 == 0 {
			b = b[:1]
		}
		return primitives.MemberId(append(b, make([]byte, n%3)...))
	},
	func(n uint64) primitives.MemberId { // long ids that share their first 20 bytes
		return primitives.MemberId(fmt.Sprintf("PPPPPPPPPPPPPPPPPPPP%08d", n))
	},
	func(n uint64) primitives.MemberId { // 32-byte ids that differ in the first bytes only
		return primitives.MemberId(fmt.Sprintf("%08d************************", n))
	},
}

func mkMembers(ids, ws []uint64) []interfaces.CommitteeMember {
	ms := make([]interfaces.CommitteeMember, len(ids))
	for i := range ids {
		ms[i] = interfaces.CommitteeMember{Id: qEnc(ids[i]), Weight: primitives.MemberWeight(ws[i])}
	}
	return ms
}
func mkIds(ids []uint64) []primitives.MemberId {
	r := make([]primitives.MemberId, len(ids))
	for i, x := range ids {
		r[i] = qEnc(x)
	}
	return r
}

var boundaries = []uint64{1 << 24, 1 << 32, 1 << 53, 1 << 62, 1 << 63, ^uint64(0)}

// genWeights produces a weight vector of length n in one of the classes of DESIGN §6 C06.
func genWeights(r *rand.Rand, n int, rep *Report) []uint64 {
	ws := make([]uint64, n)
	class := r.Intn(9)
	switch class {
	case 0:
		rep.count("weights:unit")
		for i := range ws {
			ws[i] = 1
		}
	case 1:
		rep.count("weights:small-random")
		for i := range ws {
			ws[i] = uint64(r.Intn(10))
		}
	case 2:
		rep.count("weights:one-heavy")
		for i := range ws {
			ws[i] = uint64(1 + r.Intn(3))
		}
		ws[r.Intn(n)] = uint64(10 + r.Intn(1000))
	case 3:
		rep.count("weights:with-zeros")
		for i := range ws {
			if r.Intn(2) == 0 {
				ws[i] = uint64(r.Intn(50))
			}
		}
	case 4, 5, 6:
		// total exactly at a boundary class: B + d, d in -8..8 (clamped to 64 bits)
		B := boundaries[r.Intn(len(boundaries))]
		d := int64(r.Intn(17)) - 8
		var total uint64
		if d < 0 {
			total = B - uint64(-d)
		} else if B > ^uint64(0)-uint64(d) {
			total = ^uint64(0)
		} else {
			total = B + uint64(d)
		}
		rep.count("weights:boundary-total")
		// split total into n parts
		rest := total
		for i := 0; i < n-1; i++ {
			var part uint64
			switch r.Intn(3) {
			case 0:
				part = rest / uint64(n-i)
			case 1:
				if rest > 0 {
					part = uint64(r.Int63()) % (rest/2 + 1)
				}
			case 2:
				part = uint64(r.Intn(3))
				if part > rest {
					part = rest
				}
			}
			ws[i] = part
			rest -= part
		}
		ws[n-1] = rest
		r.Shuffle(n, func(i, j int) { ws[i], ws[j] = ws[j], ws[i] })
	case 7:
		rep.count("weights:total-3k+c")
		k := uint64(1 + r.Intn(40))
		total := 3*k + uint64(r.Intn(3))
		rest := total
		for i := 0; i < n-1; i++ {
			part := uint64(0)
			if rest > 0 {
				part = uint64(r.Int63n(int64(rest/uint64(n-i) + 2)))
				if part > rest {
					part = rest
				}
			}
			ws[i] = part
			rest -= part
		}
		ws[n-1] = rest
	case 8:
		rep.count("weights:wrapping-total")
		for i := range ws {
			ws[i] = r.Uint64() >> uint(r.Intn(3))
		}
	}
	return ws
}

func totalBig(ws []uint64) *big.Int {
	t := new(big.Int)
	for _, w := range ws {
		t.Add(t, new(big.Int).SetUint64(w))
	}
	return t
}

func genSubset(r *rand.Rand, ids []uint64, rep *Report) []uint64 {
	var sub []uint64
	p := r.Float64()
	for _, id := range ids {
		if r.Float64() < p {
			sub = append(sub, id)
		}
	}
	if r.Intn(4) == 0 && len(sub) > 0 { // duplicates
		rep.count("subset:with-duplicates")
		sub = append(sub, sub[r.Intn(len(sub))])
	}
	if r.Intn(4) == 0 { // outsider
		rep.count("subset:with-outsider")
		sub = append(sub, 9000+uint64(r.Intn(5)))
	}
	r.Shuffle(len(sub), func(i, j int) { sub[i], sub[j] = sub[j], sub[i] })
	return sub
}

func quorumMonitor(rep *Report, c qCase, ms []interfaces.CommitteeMember) {
	// Property monitor evaluated directly on the implementation (search aid; DESIGN §2.3).
	total := totalBig(c.Weights)
	if total.BitLen() > 64 {
		return // outside the property's hypothesis
	}
	// duplicate committee ids are excluded by the SPI contract
	seen := map[uint64]bool{}
	for _, id := range c.Ids {
		if seen[id] {
			return
		}
		seen[id] = true
	}
	W := total
	f := new(big.Int)
	if W.Sign() == 0 {
		f.SetInt64(-1)
	} else {
		f.Div(new(big.Int).Sub(W, big.NewInt(1)), big.NewInt(3))
	}
	Q := new(big.Int).Sub(W, f)
	wOf := func(sub []uint64) *big.Int {
		in := map[uint64]bool{}
		for _, s := range sub {
			in[s] = true
		}
		t := new(big.Int)
		for i, id := range c.Ids {
			if in[id] {
				t.Add(t, new(big.Int).SetUint64(c.Weights[i]))
			}
		}
		return t
	}
	isQ := func(sub []uint64) bool { ok, _, _ := quorum.IsQuorum(mkIds(sub), ms); return ok }
	hasH := func(sub []uint64) bool { ok, _, _ := quorum.HasHonest(mkIds(sub), ms); return ok }
	inp := func(extra string) interface{} {
		return map[string]interface{}{"ids": c.Ids, "weights": fmt.Sprint(c.Weights), "subset": c.Subset, "note": extra}
	}
	// the tests are the specified functions of W
	if isQ(c.Subset) != (wOf(c.Subset).Cmp(Q) >= 0) {
		rep.finding("C06", "isquorum-not-spec", fmt.Sprintf("IsQuorum=%v but weight=%s Q=%s (W=%s)", isQ(c.Subset), wOf(c.Subset), Q, W), inp(""))
	}
	if W.Sign() > 0 && hasH(c.Subset) != (wOf(c.Subset).Cmp(f) > 0) {
		rep.finding("C06", "hashonest-not-spec", fmt.Sprintf("HasHonest=%v but weight=%s f=%s (W=%s)", hasH(c.Subset), wOf(c.Subset), f, W), inp(""))
	}
	if isQ(c.Subset) && !hasH(c.Subset) {
		rep.finding("C06", "quorum-without-honest", "a subset passing IsQuorum fails HasHonest", inp(""))
	}
	// greedy: A = smallest prefix (by order) reaching quorum, B = smallest suffix reaching quorum; intersection must exceed f
	var A, B []uint64
	for i := 0; i < len(c.Ids) && !isQ(A); i++ {
		A = append(A, c.Ids[i])
	}
	for i := len(c.Ids) - 1; i >= 0 && !isQ(B); i-- {
		B = append(B, c.Ids[i])
	}
	if isQ(A) && isQ(B) {
		inB := map[uint64]bool{}
		for _, b := range B {
			inB[b] = true
		}
		var I []uint64
		for _, a := range A {
			if inB[a] {
				I = append(I, a)
			}
		}
		if wOf(I).Cmp(f) <= 0 {
			rep.finding("C06", "quorums-intersect-in-at-most-f", fmt.Sprintf("A=%v B=%v intersection weight %s <= f=%s", A, B, wOf(I), f), inp(""))
		}
	}
	// complement of a maximal prefix of weight <= f is a quorum
	var S []uint64
	for _, id := range c.Ids {
		if wOf(append(append([]uint64{}, S...), id)).Cmp(f) <= 0 {
			S = append(S, id)
		}
	}
	inS := map[uint64]bool{}
	for _, s := range S {
		inS[s] = true
	}
	var C []uint64
	for _, id := range c.Ids {
		if !inS[id] {
			C = append(C, id)
		}
	}
	if wOf(S).Cmp(f) <= 0 && !isQ(C) {
		rep.finding("C06", "complement-of-f-subset-not-quorum", fmt.Sprintf("S=%v weight %s <= f=%s but complement is not a quorum", S, wOf(S), f), inp(""))
	}
}

func runQuorum(cfg *runCfg) error {
	r := rand.New(rand.NewSource(cfg.seed))
	rep := newReport("quorum", cfg)
	n := cfg.n
	if n == 0 {
		n = 1500
		if cfg.tier == "thorough" {
			n = 20000
		}
	}
	var cases []string
	distinct := map[string]bool{}
	for i := 0; i < n; i++ {
		qEnc = qEncoders[r.Intn(len(qEncoders))]
		size := 1 + r.Intn(12)
		if r.Intn(8) == 0 {
			size = 13 + r.Intn(52)
		}
		ids := make([]uint64, size)
		for j := range ids {
			ids[j] = uint64(j + 1)
		}
		if r.Intn(20) == 0 && size > 1 { // repeated committee id (outside the SPI contract; model reproduces it)
			rep.count("committee:repeated-id")
			ids[size-1] = ids[0]
		}
		ws := genWeights(r, size, rep)
		sub := genSubset(r, ids, rep)
		c := qCase{ids, ws, sub}
		ms := mkMembers(ids, ws)
		q1, q2, q3 := quorum.IsQuorum(mkIds(sub), ms)
		h1, h2, h3 := quorum.HasHonest(mkIds(sub), ms)
		cq := quorum.CalcQuorumWeight(quorum.GetWeights(ms))
		cb := quorum.CalcByzMaxWeight(quorum.GetWeights(ms))
		if totalBig(ws).BitLen() > 53 {
			rep.count("total:above-2^53")
		}
		if totalBig(ws).BitLen() > 64 {
			rep.count("total:wraps")
		}
		if q1 {
			rep.count("result:quorum")
		} else {
			rep.count("result:no-quorum")
		}
		cm := make([]string, size)
		for j := range ids {
			cm[j] = cPair(cN(ids[j]), cN(ws[j]))
		}
		obs := fmt.Sprintf("((%s, %d, %d), (%s, %d, %d), %d, %d)", cBool(q1), q2, q3, cBool(h1), h2, h3, cq, cb)
		cases = append(cases, fmt.Sprintf("(%s, %s, %s)", cList(cm), cListN(sub), obs))
		key := fmt.Sprint(ws, sub)
		if !distinct[key] && len(sub) > 0 && size > 1 {
			distinct[key] = true
		}
		rep.sample(c, 5)
		quorumMonitor(rep, c, ms)
	}
	rep.Evaluations = n
	rep.DistinctNontr = len(distinct)
	rep.Rule = "weight vectors of length 1..64 in classes unit/small/one-heavy/zeros/boundary totals (2^24,2^32,2^53,2^62,2^63,2^64-1 +-8)/3k+c/wrapping, random subsets with duplicates and outsiders; non-trivial = committee of >=2 members and non-empty subset; distinct by (weights, subset)"
	cf := newCaseFile("From LH Require Import Prims Quorum Corr.\nOpen Scope N_scope.")
	cf.addShards("qc", "qcase", "q_ok", cases, 500)
	p := filepath.Join(cfg.outDir, "cases_quorum.v")
	if err := cf.write(p); err != nil {
		return err
	}
	rep.CaseFiles = []string{p}
	return rep.write(cfg.outDir)
}

func leaderViews(r *rand.Rand, n int) []uint64 {
	var vs []uint64
	for v := 0; v <= 4*n; v++ {
		vs = append(vs, uint64(v))
	}
	for k := uint(0); k < 64; k++ {
		p := uint64(1) << k
		vs = append(vs, p-2, p-1, p, p+1, p+2)
	}
	for _, c := range []uint64{1 << 31, 1 << 32, 1 << 63} {
		for d := uint64(0); d < 6; d++ {
			vs = append(vs, c-d, c+d)
		}
	}
	for d := uint64(0); d < 70; d++ {
		vs = append(vs, ^uint64(0)-d)
	}
	for i := 0; i < 20; i++ {
		vs = append(vs, r.Uint64())
	}
	return vs
}

func runLeader(cfg *runCfg) error {
	r := rand.New(rand.NewSource(cfg.seed))
	rep := newReport("leader", cfg)
	sizes := []int{1, 2, 3, 4, 5, 7, 10, 16, 31, 64}
	if cfg.tier == "thorough" {
		sizes = nil
		for n := 1; n <= 64; n++ {
			sizes = append(sizes, n)
		}
	} else {
		sizes = append(sizes, 4+r.Intn(61), 4+r.Intn(61))
	}
	var cases []string
	evals := 0
	distinct := map[string]bool{}
	for _, n := range sizes {
		ids := make([]uint64, n)
		ws := make([]uint64, n)
		for j := range ids {
			ids[j] = uint64(j)
			ws[j] = 1
		}
		ms := mkMembers(ids, ws)
		seenIdx := map[uint64]int{}
		for _, v := range leaderViews(r, n) {
			idx, panicked := func() (res uint64, p bool) {
				defer func() {
					if e := recover(); e != nil {
						p = true
					}
				}()
				id := termincommittee.VerifLeaderOf(primitives.View(v), ms)
				for j := range ms {
					if ms[j].Id.Equal(id) {
						return uint64(j), false
					}
				}
				return 999999, false
			}()
			evals++
			distinct[fmt.Sprint(n, v)] = true
			if panicked {
				rep.count("result:panic")
				rep.finding("C18", "leader-panics", fmt.Sprintf("calcLeaderOfViewAndCommittee panics for n=%d view=%d", n, v), map[string]interface{}{"n": n, "view": fmt.Sprint(v)})
			} else {
				rep.count("result:index")
				if idx != v%uint64(n) {
					rep.finding("C18", "leader-not-view-mod-n", fmt.Sprintf("n=%d view=%d leader index %d != %d", n, v, idx, v%uint64(n)), map[string]interface{}{"n": n, "view": fmt.Sprint(v)})
				}
				if v <= uint64(4*n) {
					seenIdx[idx]++
				}
			}
			if v >= 1<<63 {
				rep.count("view:>=2^63")
			} else if v >= 1<<31 {
				rep.count("view:2^31..2^63")
			} else {
				rep.count("view:<2^31")
			}
			cases = append(cases, fmt.Sprintf("(%d, %d, %s)", n, v, cOptN(!panicked, idx)))
			rep.sample(map[string]interface{}{"n": n, "view": fmt.Sprint(v), "index": idx, "panic": panicked}, 6)
		}
	}
	rep.Evaluations = evals
	rep.DistinctNontr = len(distinct)
	rep.Rule = "committee sizes x views (0..4n dense, all powers of two +-2, neighbourhoods of 2^31, 2^32, 2^63, 2^64-1, random); distinct by (n, view); every case is non-trivial (a leader index or a panic is compared)"
	cf := newCaseFile("From LH Require Import Prims Leader Corr.\nOpen Scope N_scope.")
	cf.addShards("lc", "lcase", "l_ok", cases, 1000)
	p := filepath.Join(cfg.outDir, "cases_leader.v")
	if err := cf.write(p); err != nil {
		return err
	}
	rep.CaseFiles = []string{p}
	return rep.write(cfg.outDir)
}

func runTimeout(cfg *runCfg) error {
	r := rand.New(rand.NewSource(cfg.seed))
	rep := newReport("timeout", cfg)
	bases := []int64{1, 2, 3, 1000, 1000000, int64(time.Millisecond) * 100, int64(time.Second), 4 * int64(time.Second), int64(time.Minute), int64(time.Hour), 1<<62 + 5, 1<<63 - 1, 0, -1, -5 * int64(time.Second)}
	for i := 0; i < 6; i++ {
		bases = append(bases, 1+r.Int63n(int64(time.Hour)))
	}
	var views []uint64
	for v := uint64(0); v <= 200; v++ {
		views = append(views, v)
	}
	for _, c := range []uint64{1 << 31, 1 << 32, 1 << 53, 1 << 63} {
		for d := uint64(0); d < 3; d++ {
			views = append(views, c-d, c+d)
		}
	}
	views = append(views, 1023, 1024, 1025, ^uint64(0), ^uint64(0)-1)
	for i := 0; i < 10; i++ {
		views = append(views, r.Uint64())
	}
	var cases []string
	evals := 0
	for _, b := range bases {
		et := Electiontrigger.NewTimerBasedElectionTrigger(time.Duration(b), nil)
		prev := int64(0)
		for i, v := range views {
			d := int64(et.CalcTimeout(primitives.View(v)))
			evals++
			cases = append(cases, fmt.Sprintf("(%s, %d, %s)", cZ(b), v, cZ(d)))
			if b > 0 {
				inp := map[string]interface{}{"base_ns": b, "view": fmt.Sprint(v)}
				if d <= 0 {
					rep.finding("C19", "timeout-not-positive", fmt.Sprintf("CalcTimeout(base=%d ns, view=%d) = %d", b, v, d), inp)
				}
				if i > 0 && i <= 200 && d < prev {
					rep.finding("C19", "timeout-not-monotone", fmt.Sprintf("CalcTimeout(base=%d ns, view=%d) = %d < %d at view %d", b, v, d, prev, views[i-1]), inp)
				}
				// spec: min(base*2^v, MaxInt64)
				spec := new(big.Int).SetInt64(b)
				if v < 70 {
					spec.Lsh(spec, uint(v))
				} else {
					spec.Lsh(spec, 70)
				}
				if spec.Cmp(big.NewInt(1<<63-1)) > 0 {
					spec.SetInt64(1<<63 - 1)
				}
				if spec.Int64() != d {
					rep.finding("C19", "timeout-not-base-times-2^v-saturating", fmt.Sprintf("CalcTimeout(base=%d ns, view=%d) = %d, specified %s", b, v, d, spec), inp)
				}
				if d == 1<<63-1 {
					rep.count("result:saturated")
				} else {
					rep.count("result:exact")
				}
			} else {
				rep.count("base:non-positive")
			}
			prev = d
			rep.sample(map[string]interface{}{"base_ns": b, "view": fmt.Sprint(v), "timeout_ns": d}, 6)
		}
	}
	rep.Evaluations = evals
	rep.DistinctNontr = evals
	rep.Rule = "bases 1ns..1h incl. near MaxInt64, zero and negative x views 0..200 dense, boundary classes 2^31, 2^32, 2^53, 2^63, 2^64-1, 1023..1025, random; all (base, view) pairs distinct by construction; each compares the returned duration"
	cf := newCaseFile("From LH Require Import Prims Timeout Corr.\nOpen Scope N_scope.")
	cf.addShards("tc", "tcase", "t_ok", cases, 1000)
	p := filepath.Join(cfg.outDir, "cases_timeout.v")
	if err := cf.write(p); err != nil {
		return err
	}
	rep.CaseFiles = []string{p}
	return rep.write(cfg.outDir)
}
