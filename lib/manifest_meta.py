HOOK_COMMITS = ['9b6794d']

PENDING = 'check not built yet in this round of work (planned, DESIGN.md §10 build order); not a statement that the technique cannot apply'
NOT_APPLICABLE = {('C%02d' % i): PENDING for i in range(1, 21)}

META = {
 'C06': {
  'technique': 'Coq proof (lia over indicator sums) + vm_compute correspondence',
  'text': 'All clauses of the property are Coq theorems about the executable model of quorum.go for every committee (any length, any weights with total < 2^64), every id list (duplicates, outsiders, zero weights): intersection > f, quorum => has-honest, complement attainable, no added weight, monotonicity; Q and f of the code are proved equal to the specification integers. The model is tied to /repo by evaluating it (vm_compute) on every input the Go functions were run on in this check; property monitors on the Go functions search for a failing input.',
  'note': 'Trusted: Coq kernel + vm_compute, the hand-written model Quorum.v, the harness. Assumes committee ids distinct (SPI contract) and total weight < 2^64 (property hypothesis).',
 },
 'C18': {
  'technique': 'Coq proof (mod bijection) + vm_compute correspondence',
  'text': 'Theorems: the leader function is total for every 64-bit view and non-empty committee, equals the member at position view mod n, and in every window of n consecutive views each position leads exactly once (existence and uniqueness). Tied to the package-private Go function through a verif hook on dense/boundary views for sizes 1..64.',
  'note': 'Trusted: Coq kernel, Leader.v model, hook VerifLeaderOf calling calcLeaderOfViewAndCommittee. Behaviour-level use of the leader (message routing) is covered by the term engine properties.',
 },
 'C19': {
  'technique': 'Coq proof (Z arithmetic) + vm_compute correspondence',
  'text': 'Part (a): theorems that CalcTimeout (as modelled) equals min(base*2^v, MaxInt64) for all v and 0 < base <= MaxInt64, is positive, monotone in v, saturating; tied to Go CalcTimeout on views 0..200 dense + boundary classes x bases 1ns..1h. Part (b) (trigger discipline) is proved on the Timer state-machine model; wall-clock facts (not before the timeout, eventually fires) rest on time.AfterFunc and are assumptions.',
  'note': 'Trusted: Coq kernel, Timeout.v/Timer.v models, harness. Assumes Go runtime timer semantics.',
 },
 'C17': {
  'technique': 'Coq proof (invariant over op sequences incl. re-entrant drain) + vm_compute correspondence',
  'text': 'Theorems for every sequence of receive/advance operations, including a handler that commits and starts the next height from inside a delivery: each delivery goes to the term of the message height, our instance, not our own sender; no message is delivered twice; only received messages are delivered; starting height h delivers exactly the messages cached for h in arrival order up to the first one that commits the term; accepted future messages are appended in arrival order, a higher height evicts, rejected messages have no effect. Tied to the real RawMessageFilter+State by exhaustive short sequences and random long ones with re-entrant handlers.',
  'note': 'Trusted: Coq kernel, Filter.v model, harness recording handler. The clause "delivered exactly once" is proved in the form: delivered at the start of H unless an earlier cached message of H already made the node commit and leave H (then it is a past-height message and is dropped) — the repaired behaviour (finding F12).',
 },
 'C15': {
  'technique': 'Coq proof (registry invariant over all op orders) + exhaustive/random correspondence',
  'text': 'Part (a), registry laws, proved for every order of For/CancelOlderThan/Shutdown: For fails iff shut down or key older than an earlier CancelOlderThan argument; a context is done iff Shutdown happened or a later CancelOlderThan had a newer argument; CancelOlderThan cancels exactly the older live contexts and nothing at or above its argument; watermark = max argument; one context per key. Tied to the real ViewContexts exhaustively for all sequences of 4 (quick) / 5 (thorough) ops over a 2x2 key range plus random long sequences. Part (b), the loop discipline (cancel before forward, no broadcast after cancellation), is checked on the worker model/engine.',
  'note': 'Trusted: Coq kernel, Contexts.v model, Go context package semantics. Promptness of SPI reaction to cancellation is runtime behaviour and is not modelled.',
 },
 'C07': {
  'technique': 'Coq proof (guard extraction on the executable node model) + lockstep correspondence with the real WorkerLoop',
  'text': 'Theorem for every term state and every message: whenever handling a message makes the node send a PREPARE it had not sent before, the message is a NEW_VIEW carrying the certificate of the statement (right type, leader signature, votes for exactly this height and view from pairwise distinct committee members passing the quorum test, each with a valid signature and a valid prepared proof, proposal = hash of the maximal proof or a validated fresh block), or it is a standalone PREPREPARE by the leader of that view; no other message kind can cause a PREPARE. The second disjunct in a view above 0 is a genuine defect that cannot be repaired without editing pinned tests (known finding KF-1): the full statement is refuted with a kernel-checked witness and reproduced on the real code on every run. Tie: N real nodes (real WorkerLoop, unforgeable-signature SPI fakes) are driven in lockstep with the Gallina node on random adversarial schedules; every output, storage write and state getter is compared; Go reference monitors judge the implementation directly.',
  'note': 'Trusted: Coq kernel, Term.v model, harness (decoding of wire bytes into abstract messages with the repo readers, signature flags from the harness key manager). Leader side of the statement is covered by C09.',
 },
 'C08': {
  'technique': 'Coq proof (influence implies reference predicate) + lockstep correspondence',
  'text': 'Theorems: if handling a message changes anything in the term (storage, view, outputs) then the message satisfies the reference predicate of the statement for its kind (type tag matches the envelope, signature valid under the claimed sender, sender in the committee, PREPREPARE from the leader of its view, PREPARE from a non-leader and not below the current view, COMMIT with valid share, VIEW_CHANGE addressed to this node as leader and not below its view with a proof satisfying proof_spec, NEW_VIEW from the leader and not below the view); the filter only hands over messages of this instance and height not sent by the node itself; the code\'s vote/proof validation implies the declarative vote_spec/proof_spec. Tie: lockstep world engine with one mutation operator per guard (Appendix D) and a Go reference predicate evaluated on every delivery.',
  'note': 'Trusted: Coq kernel, Term.v model, harness. The NEW_VIEW certificate itself is C07.',
 },
 'C10': {
  'technique': 'Coq proof (invariant over all event sequences of a term) + lockstep correspondence',
  'text': 'Theorems for startTerm followed by any sequence of deliveries and election triggers under any registry state: the invariant TInv holds, hence at most one PREPARE hash, one COMMIT hash and one proposal hash per view, PREPARE and COMMIT of a view agree, every PREPARE is for the stored proposal of that view\'s leader who is not this node, every COMMIT was sent holding a prepared certificate or a commit quorum for exactly that (view, hash), VIEW_CHANGE views strictly increase, and PREPREPARE/PREPARE/NEW_VIEW are only sent for the current view, which never decreases. Tie: lockstep world engine (equivocating Byzantine leaders, duplicates, re-delivery) + a monitor over each node\'s send stream.',
  'note': 'Trusted: Coq kernel, Term.v model, harness. Stated per term (one height); a height gets one term per node by C13.',
 },
 'C09': {
  'technique': 'Coq proof (storage invariant over all event sequences + extractor/selection lemmas) + lockstep correspondence',
  'text': 'Theorems: the storage invariant SInv (every stored proposal is a verified PREPREPARE of that view\'s leader whose block matches its hash, every stored PREPARE is a verified one of a distinct non-leader member, a prepared flag is backed by a stored quorum certificate, every stored vote is a valid vote of a member for this height and view carrying its block iff it carries a proof) holds after startTerm and any sequence of deliveries and elections; from it: the VIEW_CHANGE sent on timeout by a prepared node carries a proof satisfying proof_spec for its prepared view plus the matching block (none if unprepared); the extractor never fails or panics; the NEW_VIEW of an elected node embeds exactly its stored votes, which pass the quorum test, proposes the block of a stored vote with maximal proof view, and requests a fresh block only if no stored vote has a proof. Tie: lockstep world engine with prepared nodes in many views, mixed vote sets, proof-without-block and delayed votes; Go monitors check each outgoing VIEW_CHANGE/NEW_VIEW.',
  'note': 'Trusted: Coq kernel, Term.v model, harness. "Highest valid prepared proof" is with respect to the stored (verified) votes.',
 },
 'C20': {
  'technique': 'Coq proof (generic builder/reader round trip by induction over the field list, instantiated to the lean-helix schemas) + byte-for-byte correspondence',
  'text': 'Theorems: for the generic membuffers model (any schema of uint16/uint64/bytes/message/message-array fields, any values whose parts stay below 2^32 bytes) the reader\'s offset table on the builder\'s bytes equals the builder\'s, and every scalar, dynamic field and message array reads back exactly; instantiated to lean-helix: dec_msg (enc_msg m) = Some m for all five message kinds with arbitrary instance/height/view, ids, hashes, signatures, shares, proofs and votes; the same for block proofs; the signed header read out of a message, vote or block proof is byte-identical to the standalone encoding that was signed (so signatures keep verifying). Regression theorem: non-canonical encodings parse, so re-encoding is not the identity (F11). Tie: the Go builders\' bytes must equal the model\'s encoding byte for byte and the Go readers must agree with the model\'s reader on built, truncated, bit-flipped, size-mangled and random bytes.',
  'note': 'Trusted: Coq kernel, Wire.v/WireLH.v models, harness. uint32 offset wrap-around and unsafe reads of membuffers on hostile size words are outside the wire model (cases where the Go reader panics are counted and skipped; C12 covers them with recover guards).',
 },
 'C02': {
  'technique': 'Coq proof (acceptance implies certificate) + correspondence on generated and mangled certificates',
  'text': 'Theorems about the model of ValidateBlockConsensus on the decoded proof: acceptance implies the certificate of the statement (COMMIT type, this instance, the block\'s height, hash satisfied by the block, pairwise distinct signers all in the committee with valid signatures, quorum test in strict mode / has-honest test in soft mode, non-empty verifying random-seed signature); by C06 the accepted weight is at least Q = W - floor((W-1)/3) resp. more than f for every committee with total below 2^64; unreadable bytes are rejected; the verdict is a total function. Tie: the real ValidateBlockConsensus and GetMemberIdsFromBlockProof on certificates with signer weight aimed at Q, Q-1, f, f+1, each field mutated, outsiders, duplicates, seeds, both modes, truncated / size-mangled / random bytes and the F7 witness; verdicts compared with the model; an independent Go reference predicate flags any acceptance without a genuine certificate; panics are findings.',
  'note': 'Trusted: Coq kernel, VBC.v model, harness decoding of proof bytes (repo readers) and its key manager. Byte-level decoding is the wire model (C20).',
 },
 'C12': {
  'technique': 'Coq proof (totality of the term logic, explicit Panic values unreachable) + fault injection of malformed bytes at the real entry points',
  'text': 'Theorems: for every sequence of deliveries with arbitrary field values and election triggers the term logic never reaches any of its partial operations (OPanic unreachable; uses the storage invariant for prepareMessages[0] and totality of the leader function for all 64-bit views); a single delivery never panics in any state; unreadable content is a no-op event and unreadable proofs are errors. Tie/fault injection: the world engine injects truncated, size-mangled and random content (including the witnesses of finding F7) into running nodes through the loops\' own entry points and requires lockstep agreement with the model afterwards (the node keeps processing and committing); the vbc and wire engines feed hostile bytes to ValidateBlockConsensus, GetMemberIdsFromBlockProof and the readers; any escaping panic is a finding.',
  'note': 'Trusted: Coq kernel, Term.v/VBC.v models, harness, Go recover semantics. Not expressible: memory unsafety of membuffers\' unsafe reads, runtime fatal errors. The supervision clause (shutdown flag only on cancellation) is part of the Loops model (C16).',
 },
}
