HOOK_COMMITS = ['9b6794d']

PENDING = 'check not built yet in this round of work (planned, DESIGN.md §10 build order); not a statement that the technique cannot apply'
NOT_APPLICABLE = {('C%02d' % i): PENDING for i in range(1, 21)}

META = {
 'C06': {
  'technique': 'Coq proof (lia over indicator sums) + vm_compute correspondence',
  'text': 'All clauses of the property are Coq theorems about the executable model of quorum.go for every committee (any length, any weights with total < 2^64), every id list (duplicates, outsiders, zero weights): intersection > f, quorum => has-honest, complement attainable, no added weight, monotonicity; Q and f of the code are proved equal to the specification integers. The model is tied to /repo by evaluating it (vm_compute) on every input the Go functions were run on in this check; property monitors on the Go functions search for a failing input.',
  'note': 'Trusted: Coq kernel + vm_compute, the hand-written model Quorum.v, the harness. Assumes committee ids distinct (SPI contract) and total weight < 2^64 (property hypothesis).',
 },
 'C18': {
  'technique': 'Coq proof (mod bijection) + vm_compute correspondence',
  'text': 'Theorems: the leader function is total for every 64-bit view and non-empty committee, equals the member at position view mod n, and in every window of n consecutive views each position leads exactly once (existence and uniqueness). Tied to the package-private Go function through a verif hook on dense/boundary views for sizes 1..64.',
  'note': 'Trusted: Coq kernel, Leader.v model, hook VerifLeaderOf calling calcLeaderOfViewAndCommittee. Behaviour-level use of the leader (message routing) is covered by the term engine properties.',
 },
 'C19': {
  'technique': 'Coq proof (Z arithmetic) + vm_compute correspondence',
  'text': 'Part (a): theorems that CalcTimeout (as modelled) equals min(base*2^v, MaxInt64) for all v and 0 < base <= MaxInt64, is positive, monotone in v, saturating; tied to Go CalcTimeout on views 0..200 dense + boundary classes x bases 1ns..1h. Part (b) (trigger discipline) is proved on the Timer state-machine model; wall-clock facts (not before the timeout, eventually fires) rest on time.AfterFunc and are assumptions.',
  'note': 'Trusted: Coq kernel, Timeout.v/Timer.v models, harness. Assumes Go runtime timer semantics.',
 },
 'C17': {
  'technique': 'Coq proof (invariant over op sequences incl. re-entrant drain) + vm_compute correspondence',
  'text': 'Theorems for every sequence of receive/advance operations, including a handler that commits and starts the next height from inside a delivery: each delivery goes to the term of the message height, our instance, not our own sender; no message is delivered twice; only received messages are delivered; starting height h delivers exactly the messages cached for h in arrival order up to the first one that commits the term; accepted future messages are appended in arrival order, a higher height evicts, rejected messages have no effect. Tied to the real RawMessageFilter+State by exhaustive short sequences and random long ones with re-entrant handlers.',
  'note': 'Trusted: Coq kernel, Filter.v model, harness recording handler. The clause "delivered exactly once" is proved in the form: delivered at the start of H unless an earlier cached message of H already made the node commit and leave H (then it is a past-height message and is dropped) — the repaired behaviour (finding F12).',
 },
 'C15': {
  'technique': 'Coq proof (registry invariant over all op orders) + exhaustive/random correspondence',
  'text': 'Part (a), registry laws, proved for every order of For/CancelOlderThan/Shutdown: For fails iff shut down or key older than an earlier CancelOlderThan argument; a context is done iff Shutdown happened or a later CancelOlderThan had a newer argument; CancelOlderThan cancels exactly the older live contexts and nothing at or above its argument; watermark = max argument; one context per key. Tied to the real ViewContexts exhaustively for all sequences of 4 (quick) / 5 (thorough) ops over a 2x2 key range plus random long sequences. Part (b), the loop discipline (cancel before forward, no broadcast after cancellation), is checked on the worker model/engine.',
  'note': 'Trusted: Coq kernel, Contexts.v model, Go context package semantics. Promptness of SPI reaction to cancellation is runtime behaviour and is not modelled.',
 },
}
