"""Per-property configuration of /verif/check: which engines tie the model to /repo, what is assumed."""

COMMON_ASSUME = ['generators reach the behaviour a code change affects (correspondence is differential testing, not proof)']

# the real runtime (goroutines, timers): never cached, its interleavings differ from run to run
RUNTIME = {'name': 'runtime', 'quick_args': ['-n', '8'], 'thorough_args': ['-n', '150'], 'cache': False}

# the prepared-proof validator on its own: every field swept (engine `proofs`)
PROOFS = {'name': 'proofs', 'quick_args': ['-n', '3000'], 'thorough_args': ['-n', '40000']}

PROPS = {
    'C06': {
        'engines': [{'name': 'quorum', 'quick_args': ['-n', '800'], 'thorough_args': ['-n', '12000']}],
        'trusted_base': ['theorems in coq/props/C06.v about coq/theories/Quorum.v (proofs in QuorumFacts.v)'],
        'assumptions': COMMON_ASSUME + ['committee ids pairwise distinct (SPI contract of Membership)', 'total weight < 2^64 (hypothesis of the property)'],
    },
    'C18': {
        'engines': [{'name': 'leader'}, {'name': 'world', 'quick_args': ['-n', '70'], 'thorough_args': ['-n', '1200']}],
        'corr_modules': ['Term'],
        'trusted_base': ['theorems in coq/props/C18.v about coq/theories/Leader.v'],
        'assumptions': COMMON_ASSUME,
    },
    'C19': {
        'engines': [{'name': 'timeout'}, {'name': 'trigger', 'quick_args': ['-n', '60'], 'thorough_args': ['-n', '600'], 'cache': False}, RUNTIME],
        'trusted_base': ['theorems in coq/props/C19.v about coq/theories/Timeout.v, Timer.v (proofs in TimerFacts.v) and Loops.v (LoopsFacts.v)'],
        'assumptions': COMMON_ASSUME + ['base timeout positive and at most MaxInt64 ns', 'time.AfterFunc fires once, not before its duration, and Timer.Stop reports whether it prevented the firing (Go runtime)',
                                        'Go select picks any ready case (the model lets a cancelled instance that is past its first select still deliver)',
                                        'part (b): Timer.v is tied to the code by the trigger engine (public operations on the real trigger, triggers read from the channel compared with tm_public_run) and by the runtime engine\'s observations of the real trigger inside running nodes (arm / trigger / election order and timing)'],
        'notes': ['"eventually delivers" is proved as enabledness (a fired, un-superseded instance can always hand over its trigger); that the Go scheduler runs it is observed, not proved'],
    },
    'C17': {
        'engines': [{'name': 'filter'}, {'name': 'world', 'quick_args': ['-n', '70'], 'thorough_args': ['-n', '1200']}],
        'corr_modules': ['Term'],
        'trusted_base': ['theorems in coq/props/C17.v about coq/theories/Filter.v (proofs in FilterFacts.v) and about the node model Term.v (NodeFacts.v: the installed term is the term of the node\'s height after every event sequence, split syncs included)'],
        'assumptions': COMMON_ASSUME + ['heights passed to onNewConsensusRound only take effect when increasing (SetHeightAndResetView, proved in C13)', 'reading of the statement: "before it" = before the node starts H (DESIGN.md C17)'],
    },
    'C15': {
        'engines': [{'name': 'registry'}, {'name': 'world', 'quick_args': ['-n', '70'], 'thorough_args': ['-n', '1200']}, RUNTIME],
        'corr_modules': ['Term'],
        'trusted_base': ['theorems in coq/props/C15.v about coq/theories/Contexts.v (proofs in ContextsFacts.v), Loops.v (proofs in LoopsFacts.v) and Term.v (ctx_ok guards; proofs in TermFacts.v)'],
        'assumptions': COMMON_ASSUME + ['context.WithCancel semantics of the Go standard library (a child is done iff it or its parent was cancelled)',
                                        'Loops.v abstracts the protocol to its effect on (height, view), timer and SPI calls; it is tied to the code by the runtime engine (trace acceptor Runtime.v + monitors), the registry by the registry engine'],
        'notes': ['part (a) registry laws: proved for all op sequences; part (b) loop discipline: proved for all interleavings of the two-goroutine model; "results under a cancelled context are not broadcast" is checked on the implementation by the runtime and world engines (ctx_ok guards in Term.v)'],
    },
    'C07': {
        'engines': [{'name': 'world', 'quick_args': ['-n', '70'], 'thorough_args': ['-n', '1200']},
                    {'name': 'worldkf1', 'quick_args': ['-n', '25'], 'thorough_args': ['-n', '300']}, {'name': 'filter'}, PROOFS],
        # "for exactly this instance": the instance of a NEW_VIEW's own header is checked by the raw-message filter only, so its findings are reported here too
        'also_report': ('C17',),
        'corr_modules': ['Term'],
        'trusted_base': ['theorems in coq/props/C07.v about coq/theories/Term.v (proofs in TermFacts.v)'],
        'assumptions': COMMON_ASSUME + ['signature flags: s_ok of a received (header, sender) pair is what KeyManager.VerifyConsensusMessage returns for it', 'raw-message filter delivers only messages of the term height (C17)'],
        'notes': ['full statement refuted by known finding KF-1 (standalone PREPREPARE in a view above 0); proved theorem is the partial one'],
    },
    'C08': {
        'engines': [{'name': 'world', 'quick_args': ['-n', '70'], 'thorough_args': ['-n', '1200']}, {'name': 'filter'}, PROOFS],
        # what a NEW_VIEW's embedded votes must be for it to count is C07's certificate predicate: its findings on these worlds (no standalone PREPREPAREs here) are reported too
        'also_report': ('C17', 'C07'),
        'corr_modules': ['Term'],
        'trusted_base': ['theorems in coq/props/C08.v about coq/theories/Term.v (proofs in TermFacts.v)'],
        'assumptions': COMMON_ASSUME + ['signature flags as in C07', 'membership = ids of the committee returned by Membership for the height'],
    },
    'C10': {
        'engines': [{'name': 'world', 'quick_args': ['-n', '70'], 'thorough_args': ['-n', '1200']},
                    {'name': 'worldkf1', 'quick_args': ['-n', '25'], 'thorough_args': ['-n', '300']}],
        'corr_modules': ['Term'],
        'trusted_base': ['theorems in coq/props/C10.v about coq/theories/Term.v (proofs in TermFacts.v)'],
        'assumptions': COMMON_ASSUME + ['committee total weight < 2^64', 'one term per height (C13)'],
    },
    'C09': {
        'engines': [{'name': 'world', 'quick_args': ['-n', '70'], 'thorough_args': ['-n', '1200']}, PROOFS],
        'corr_modules': ['Term'],
        'trusted_base': ['theorems in coq/props/C09.v about coq/theories/Term.v (proofs in TermFacts.v)'],
        'assumptions': COMMON_ASSUME + ['committee total weight < 2^64', 'the node is a member of the committee of the height (otherwise it has no term)', 'sort.Slice on at most 12 votes is stable (Go uses insertion sort below 12 elements); ties between equal proof views are irrelevant to the theorems'],
    },
    'C20': {
        'engines': [{'name': 'wire', 'quick_args': ['-n', '120'], 'thorough_args': ['-n', '2500']}],
        'corr_modules': ['Wire', 'WireLH'],
        'trusted_base': ['theorems in coq/props/C20.v about coq/theories/Wire.v and WireLH.v (proofs in WireFacts.v, WireLHFacts.v)'],
        'assumptions': COMMON_ASSUME + ['every encoded part is below 2^32 bytes (membuffers Offset is uint32)', 'parsing is a pure function of the bytes (the readers keep no state besides a lazily computed offset table)'],
    },
    'C02': {
        'engines': [{'name': 'vbc', 'quick_args': ['-n', '1500'], 'thorough_args': ['-n', '20000']}],
        'corr_modules': ['VBC'],
        'trusted_base': ['theorems in coq/props/C02.v about coq/theories/VBC.v'],
        'assumptions': COMMON_ASSUME + ['signature flags of the proof nodes = KeyManager.VerifyConsensusMessage over the proof\'s block reference bytes; seed flag = KeyManager.VerifyRandomSeed against the seed derived from the previous proof', 'committee ids pairwise distinct, total weight < 2^64', 'ValidateBlockCommitment is a function of (height, block, hash)'],
    },
    'C12': {
        'engines': [{'name': 'world', 'quick_args': ['-n', '70'], 'thorough_args': ['-n', '1200']}, {'name': 'worldnil', 'quick_args': ['-n', '40'], 'thorough_args': ['-n', '800']}, {'name': 'vbc', 'quick_args': ['-n', '1500'], 'thorough_args': ['-n', '20000']}, {'name': 'wire', 'quick_args': ['-n', '120'], 'thorough_args': ['-n', '2500']}, RUNTIME],
        'corr_modules': ['Term', 'VBC', 'Wire', 'WireLH'],
        'trusted_base': ['theorems in coq/props/C12.v about coq/theories/Term.v, VBC.v, Leader.v (proofs in TermFacts.v)'],
        'assumptions': COMMON_ASSUME + ['Go recover() catches the run-time panics of slicing / nil dereference inside the guarded sections', 'membuffers unsafe reads stay inside the backing array for the byte strings tried (memory unsafety is not expressible in the model)'],
        'notes': ['runtime fatal errors (stack overflow, OOM on hostile sizes) are outside the model'],
    },
    'C13': {
        'engines': [{'name': 'world', 'quick_args': ['-n', '70'], 'thorough_args': ['-n', '1200']}, {'name': 'statehv'}, RUNTIME],
        'corr_modules': ['Term'],
        'trusted_base': ['theorems in coq/props/C13.v about coq/theories/Term.v (proofs in NodeFacts.v, TermFacts.v) and Contexts.v'],
        'assumptions': COMMON_ASSUME + ['committee totals < 2^64', 'the consumer\'s ValidateBlockProposal / ValidateBlockCommitment only accept blocks whose height is the height being decided (then the committed block has the term\'s height)', 'all State writes and callbacks happen on the worker goroutine (checked structurally by the runtime engine, not by the theorem)'],
    },
    'C14': {
        'engines': [RUNTIME, {'name': 'world', 'quick_args': ['-n', '70'], 'thorough_args': ['-n', '1200']}, {'name': 'registry'}],
        # a sync takes effect because the registry refuses contexts for what the sync superseded (Loops.v uses the Contexts.v
        # registry): a broken registry law is reported here too
        'also_report': ('C15',),
        'corr_modules': ['Term'],
        'trusted_base': ['theorems in coq/props/C14.v about coq/theories/Loops.v (proofs in LoopsFacts.v), Contexts.v and Term.v (start_term)'],
        'assumptions': COMMON_ASSUME + ['the Go scheduler eventually runs an enabled step of each goroutine and select eventually picks a ready case (the theorems give enabledness and the state after the step; the runtime engine observes that accepted syncs do take effect)',
                                        'Loops.v abstracts the protocol to its effect on (height, view), timer and SPI calls; it is tied to the code by the runtime engine (trace acceptor Runtime.v + monitors); the sequential node model (Term.v, ESync) by the world engine'],
    },
    'C16': {
        'engines': [{'name': 'trigger', 'quick_args': ['-n', '60'], 'thorough_args': ['-n', '600'], 'cache': False}, {'name': 'registry'}, RUNTIME],
        'trusted_base': ['theorems in coq/props/C16.v about coq/theories/Loops.v, Timer.v (proofs in LoopsFacts.v, TimerFacts.v)'],
        'assumptions': COMMON_ASSUME + ['the Go scheduler eventually runs an enabled step and select eventually picks the ready ctx.Done case ("within a bounded time" is observed by the runtime engine, the theorem bounds the number of steps)',
                                        'goroutines of the library are the main loop, the worker loop and one per fired timer instance (govnr supervision goroutines end with their loops); goroutine accounting is a runtime observation',
                                        'SPI implementations return when their context is done (the property\'s premise for blocking calls)'],
        'notes': ['partial in the sense of the brief: the model cannot exhibit wall-clock bounds or leaked goroutines; those are observed on the real runtime at random cancellation points'],
    },
    'C01': {
        'engines': [{'name': 'world', 'quick_args': ['-n', '70'], 'thorough_args': ['-n', '1200']},
                    {'name': 'worldkf1', 'quick_args': ['-n', '25'], 'thorough_args': ['-n', '300']}, PROOFS],
        # agreement rests on "a correct member endorses one hash per view" (Own.E_unique, C10) and on "a vote carries the voter's lock" (C09): both kinds of finding are reported here too
        'also_report': ('C10', 'C09'),
        'corr_modules': ['Term'],
        'trusted_base': ['theorems in coq/props/C01.v about coq/theories/World.v (global run model over Term.v; proofs in Own.v, World.v, AbsSafety.v) and WorldKF1.v'],
        'assumptions': COMMON_ASSUME + ['unforgeability: a signature that verifies under a correct member\'s key was made by that member over exactly those header bytes (auth_msg); the harness key manager (per-member secret MAC) has this property',
                                        'all correct committee members of the height use the same committee and instance id; total weight < 2^64; Byzantine weight <= floor((W-1)/3)',
                                        'one term per height and node (C13); "same block" is equality of the block hash the consumer\'s ValidateBlockCommitment binds (collision freedom is the consumer\'s)',
                                        'hypothesis of the proved (partial) theorem: no standalone PREPREPARE for a view above 0 is delivered to a correct member (known finding KF-1 otherwise)'],
        'notes': ['full statement refuted (C01_full_statement_refuted: a kernel-checked forking run with one Byzantine member out of four); the same script forks the real nodes on every run of this check (KNOWN-FINDING KF-1)'],
    },
    'C03': {
        'engines': [{'name': 'world', 'quick_args': ['-n', '70'], 'thorough_args': ['-n', '1200']}, {'name': 'vbc', 'quick_args': ['-n', '1500'], 'thorough_args': ['-n', '20000']}, {'name': 'filter'}],
        # the proof's reference takes its instance id from a stored COMMIT: that every stored COMMIT is of this instance is the raw filter's guarantee (C17)
        'also_report': ('C17',),
        'corr_modules': ['Term', 'VBC', 'Filter'],
        'trusted_base': ['theorems in coq/props/C03.v about coq/theories/Term.v and VBC.v (proofs in Cert.v, Own.v, TermFacts.v)'],
        'assumptions': COMMON_ASSUME + ['signature verification is a function of (signed bytes, signer): a peer with the same key material computes the same flags as the committer',
                                        'the aggregated random-seed signature of verified shares verifies (key manager contract; the model\'s seed flag of the callback is true)',
                                        'the peer is configured with the same instance id and committee; total weight < 2^64; the committer is a member of the committee'],
    },
    'C04': {
        'engines': [{'name': 'world', 'quick_args': ['-n', '70'], 'thorough_args': ['-n', '1200']}, PROOFS],
        # a lock that lets a receiver skip ValidateBlockProposal must be a genuine prepared proof: the reference predicate for accepted messages is C08's
        'also_report': ('C08',),
        'corr_modules': ['Term'],
        'trusted_base': ['theorems in coq/props/C04.v about coq/theories/World.v (proofs in World.v, Own.v, TermFacts.v)'],
        'assumptions': COMMON_ASSUME + ['unforgeability discipline, common committee and instance, Byzantine weight <= f (as C01); no hypothesis about standalone PREPREPAREs',
                                        'a block is identified by the hash the consumer\'s ValidateBlockProposal / ValidateBlockCommitment bind (two blocks with one hash are the consumer\'s collision)',
                                        'the model\'s validProposal is the harness consumer: rejects the blocks listed as bad for this member, checks height and hash'],
    },
    'C05': {
        'engines': [{'name': 'live', 'quick_args': ['-n', '40'], 'thorough_args': ['-n', '800']}],
        # the liveness argument rests on acceptance of honest output (C11, Live.v `accepted`) and on the lock being re-proposed (C09): such findings on the live worlds are reported here too
        'also_report': ('C11', 'C09'),
        'corr_modules': ['Term'],
        'trusted_base': ['theorems in coq/props/C05.v about coq/theories/World.v and Term.v (proofs in LiveWorld.v, Live.v, Own.v, Accept.v)'],
        'assumptions': COMMON_ASSUME + ['PARTIAL: proved is the good-view half (members of quorum weight that joined a view commit its proposal when their PREPAREs, then COMMITs, are delivered with no election trigger in between) and the acceptance steps leading into it; view synchronisation through the base*2^view timeouts is NOT proved (the model has no clock) and is only searched for stalls by the live engine',
                                        'unforgeability discipline, common committee and instance (as C01); no bound on the Byzantine weight is needed beyond the premise that the correct deciding members weigh a quorum',
                                        'the quorum of joined members has at least three distinct members (so that every member hears a PREPARE from a non-leader other than itself)',
                                        'live engine: block sync of laggards is the consumer\'s job and is performed by the harness at stabilisation; timely schedule = everything pending is delivered before the lowest-view deciding members time out together'],
        'notes': ['partial: see the header of coq/props/C05.v for the exact split'],
    },
    'C11': {
        'engines': [{'name': 'world', 'quick_args': ['-n', '70'], 'thorough_args': ['-n', '1200']}, PROOFS],
        'corr_modules': ['Term'],
        'trusted_base': ['theorems in coq/props/C11.v about coq/theories/Term.v (proofs in Accept.v, Own.v, TermFacts.v)'],
        'assumptions': COMMON_ASSUME + ['sender and receiver use the same committee, height and instance id',
                                        'signature verification is a function of (signed bytes, signer); the byte-level identity of re-encoded votes and proofs is C20 (canonical encodings, F11/F11b repaired)',
                                        'for a NEW_VIEW without locks: the receiver\'s ValidateBlockProposal accepts the correct leader\'s fresh block and the receiver\'s context for the view is live (otherwise rejecting is the specified behaviour)'],
        'notes': ['the sender-side statements for VIEW_CHANGE and NEW_VIEW are about the step that emits the message (the timeout step, the election step) from any state satisfying the storage invariants, which hold after every event sequence (trun_sinv, trun_vinv)'],
    },
}
