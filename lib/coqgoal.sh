#!/bin/bash
# coqgoal.sh <file.v> <line>: print the proof state just before <line> (debug helper)
f=$1; n=$2
head -n $((n-1)) $f > /tmp/_goal.v; echo "Show." >> /tmp/_goal.v
cd /verif/coq && coqc -Q theories LH /tmp/_goal.v 2>&1 | grep -v "^File\|^Error" | head -${3:-60}
