#!/bin/bash
# runall.sh [tier] [seed]: every claimed check, one after the other, on /repo as it stands; one summary line per property
TIER=${1:-quick}; SEED=${2:-1}
cd /verif
for i in $(seq -w 1 20); do
  P=C$i
  VERIF_SEED=$SEED timeout 7200 ./check $P --tier $TIER > work/runall_$P.log 2>&1; R=$?
  echo "$P rc=$R $(grep -c '^VIOLATION' work/runall_$P.log) violation line(s) | $(grep "^$P tier" work/runall_$P.log | tail -1)"
done
