#!/usr/bin/env python3
"""Regenerates /verif/MANIFEST.json from lib/props.py and lib/manifest_meta.py."""
import json, os, sys
ROOT = os.path.dirname(os.path.dirname(os.path.abspath(__file__)))
sys.path.insert(0, os.path.join(ROOT, 'lib'))
from props import PROPS
from manifest_meta import META, NOT_APPLICABLE, HOOK_COMMITS

ALL = ['C%02d' % i for i in range(1, 21)]
checks = []
for pid in ALL:
    if pid not in PROPS:
        continue
    m = META[pid]
    checks.append({
        'property_id': pid,
        'quick_cmd': './check %s --tier quick' % pid,
        'thorough_cmd': './check %s --tier thorough' % pid,
        'evidence_file': 'evidence/%s.json' % pid,
        'replay_cmd_template': './check %s --replay {path}' % pid,
        'engine': ','.join(e['name'] for e in PROPS[pid]['engines']),
        'level_claimed': {'category': 'proof', 'text': m['text'], 'design_ref': m.get('design_ref', 'DESIGN.md §6 ' + pid)},
        'level_note': m['note'],
        'technique': m['technique'],
    })
engines = {}
for pid, p in PROPS.items():
    for e in p['engines']:
        engines.setdefault(e['name'], []).append(pid)
man = {
    'version': 1,
    'setup_cmd': './setup.sh',
    'hooks': {
        'guard': 'verif',
        'enable': 'go build -tags verif (the harness module /verif/harness replaces the lean-helix-go module by /repo and is built with -tags verif on every check)',
        'baseline_off_cmd': 'cd /repo && GOFLAGS=-mod=mod GOPROXY=off GOSUMDB=off go test -vet=off -count=1 -timeout 25m ./...',
        'source_commits': HOOK_COMMITS,
        'add_only': True,
    },
    'engines': [{'name': k, 'path': 'harness/', 'serves_properties': sorted(v), 'kind_free_text': 'Go harness engine `lhverif %s`: runs the implementation on generated inputs, writes Coq case files evaluated against the Gallina model, runs property monitors on the implementation' % k} for k, v in sorted(engines.items())],
    'checks': checks,
    'not_applicable': [{'property_id': pid, 'reason': NOT_APPLICABLE[pid]} for pid in ALL if pid not in PROPS],
    'notes': 'Technique family: machine-checked proof in Coq 8.16.1 about a hand-written executable Gallina model, tied to /repo on every run by a correspondence check (model evaluated by vm_compute on the inputs the implementation just ran). See DESIGN.md.',
}
json.dump(man, open(os.path.join(ROOT, 'MANIFEST.json'), 'w'), indent=1)
print('MANIFEST.json written: %d checks, %d not applicable' % (len(checks), len(man['not_applicable'])))
