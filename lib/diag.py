#!/usr/bin/env python3
"""diag.py <cases_world.v> <case index>: show where the model and the implementation first differ in a node trace."""
import sys, re, subprocess, os
f, idx = sys.argv[1], int(sys.argv[2])
src = open(f).read()
shards = re.findall(r'Definition (nc_\d+) : list \(ncase\) := \[\n(.*?)\n\]\.\nDefinition M_nc_\d+ := Eval vm_compute in mismatches n_ok (\d+) ', src, re.S)
def squash(s):
    s = re.sub(r'\s+', ' ', s)
    s = re.sub(r'\{\| r_type := (\d+); r_inst := (\d+); r_height := (\d+); r_view := (\d+); r_hash := (\d+) \|\}', r'RF(\1,\2,h\3,v\4,x\5)', s)
    s = re.sub(r'\{\| s_id := (\d+); (?:Msg\.)?s_ok := (\w+) \|\}', r'SG(\1,\2)', s)
    s = re.sub(r'\{\| b_height := (\d+); b_id := (\d+); b_bad := (\[[^\]]*\]) \|\}', r'BK(h\1,\2,\3)', s)
    return s
for name, body, start in shards:
    start = int(start)
    cases = body.split(';\n  ')
    if start <= idx < start + len(cases):
        case = cases[idx - start].strip()
        out = '/tmp/_diag.v'
        open(out, 'w').write('''From Coq Require Import String.
From LH Require Import Prims Quorum Msg Term Corr.
Open Scope N_scope.
Open Scope string_scope.
Definition the_case : ncase := %s.
Definition D := Eval vm_compute in diagnose (fst the_case) node_init 0 (snd the_case).
Definition I := match D with Some (i, _, _, _) => i | None => 0 end.
Definition OBS := Eval vm_compute in nth_error (snd the_case) (N.to_nat I).
Definition MOD := match D with Some (_, o, s, f) => (o, s, f) | None => ([], (0,0,false,None), false) end.
Definition OO := match OBS with Some (_, o, _) => o | None => [] end.
Eval vm_compute in ("index", I, "lens", length (fst (fst MOD)), length OO, "state model/obs", snd (fst MOD), match OBS with Some (_, _, s) => Some s | None => None end, "oof", snd MOD).
Eval vm_compute in ("event", match OBS with Some (e, _, _) => Some e | None => None end).
Fixpoint firstdiff (a b : list out) : option (option out * option out) :=
  match a, b with [], [] => None | x :: r, y :: s => if out_eqb x y then firstdiff r s else Some (Some x, Some y) | x :: _, [] => Some (Some x, None) | [], y :: _ => Some (None, Some y) end.
Eval vm_compute in ("first differing output (model, observed)", firstdiff (fst (fst MOD)) OO).
''' % case)
        r = subprocess.run(['coqc', '-Q', '/verif/coq/theories', 'LH', out], stdout=subprocess.PIPE, stderr=subprocess.STDOUT, universal_newlines=True)
        for blk in r.stdout.split('\n     = ')[0:]:
            print(squash(blk)[:int(sys.argv[3]) if len(sys.argv) > 3 else 2500]); print()
        break
