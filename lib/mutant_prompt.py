#!/usr/bin/env python3
"""Prints the prompt given to an independent sub-agent asked to seed a property-breaking change."""
import json, sys
pid, wt = sys.argv[1], sys.argv[2]
p = [json.loads(l) for l in open('/verif/properties.jsonl') if json.loads(l)['id'] == pid][0]
print(f"""You are helping evaluate a verification effort on the Go library orbs-network/lean-helix-go (a PBFT-style consensus library).
You have your own scratch git worktree of the repository at {wt} (work ONLY inside that directory; never touch /repo or /verif, and do not read anything under /verif).

Go environment for every shell call: export GOFLAGS=-mod=mod GOPROXY=off GOSUMDB=off GOTOOLCHAIN=local   (no network; all dependencies are in the module cache).
The existing test suite is run with: cd {wt} && go test -vet=off -count=1 -timeout 25m ./...   (takes ~15 s, all tests pass on the unmodified tree).

Here is a semantic property that the library is supposed to satisfy:

  id: {p['id']}
  title: {p['title']}
  statement: {p['statement']}
  quantifier: {p['quantifier']['text']}
  anchored in: {', '.join(p['anchors']['files'])}

Your task: make ONE small, realistic change to the library source in {wt} (non-test .go files only; do not edit tests, do not touch files with a `verif` build tag) that BREAKS this property while
  (1) the repository still compiles (go build ./... and go vet-free test build),
  (2) the existing test suite still passes completely, unedited,
  (3) the breakage is NOT exposed by ordinary use at once: it should need something specific to manifest — a particular interleaving, a fault at a particular point, a multi-step sequence of operations, an unusual/boundary input, or two cooperating sites that each look fine alone. Think of the kind of bug a plausible refactoring, optimisation or "cleanup" could introduce.
Then write a demonstration: a NEW Go test file (or small program) in the worktree that FAILS with your change and PASSES without it (verify both by saving the diff to a file and using `git apply -R` / `git apply`; NEVER use `git stash` - the stash is shared between worktrees - and never use pkill/killall or kill processes you did not start), exercising the public or package-level behaviour the property talks about.

Deliver, inside {wt}:
  - the change itself left applied in the working tree (uncommitted),
  - `MUTANT/patch.diff`   : `git diff` of the library change only (not the demonstration),
  - `MUTANT/demo_test.go.txt` (or demo program) : a copy of the demonstration plus, in `MUTANT/README.md`, the exact path where it must be placed and the exact command to run it,
  - `MUTANT/README.md`    : what the change is, why it breaks the property, what it needs in order to manifest, and the commands you ran with their outcomes (suite with change: pass; demo with change: fail; demo without change: pass).
Keep the change minimal (a few lines). Do not add dependencies. Finish by replying with a short summary (what you changed, what it needs to manifest, demo command).""")
