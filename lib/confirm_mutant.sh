#!/bin/bash
# confirm_mutant.sh <worktree> <seed-id> <property> <demo-dest-relpath> <go-test-package> <run-regex> <needs-text>
# Confirms a seeded change independently: suite passes with it, demo fails with it and passes without it;
# then runs the property's quick check against /repo with the patch applied (and undoes it).
set -u
WT=$1; ID=$2; PROP=$3; DEST=$4; PKG=$5; RUN=$6; NEEDS=${7:-}
export GOFLAGS=-mod=mod GOPROXY=off GOSUMDB=off GOTOOLCHAIN=local
OUT=/verif/seeded/$ID; mkdir -p $OUT
cp $WT/MUTANT/patch.diff $OUT/patch.diff
DEMO=$(ls $WT/MUTANT/ | grep -v 'patch.diff\|README' | head -1)
cp $WT/MUTANT/$DEMO $OUT/$DEMO; cp $WT/MUTANT/README.md $OUT/agent_README.md
S=/tmp/mut/confirm-$ID; rm -rf $S; git -C /repo worktree add -q --detach $S HEAD
cd $S
# without change: demo passes
mkdir -p $(dirname $S/$DEST); cp $OUT/$DEMO $S/$DEST
go test -vet=off -count=1 -run "$RUN" $PKG > $OUT/demo_without.log 2>&1; R_WITHOUT=$?
rm $S/$DEST
git apply $OUT/patch.diff || { echo "patch does not apply"; exit 2; }
go build ./... > $OUT/build_with.log 2>&1; R_BUILD=$?
go test -vet=off -count=1 -timeout 25m ./... > $OUT/suite_with.log 2>&1; R_SUITE=$?
mkdir -p $(dirname $S/$DEST); cp $OUT/$DEMO $S/$DEST
go test -vet=off -count=1 -run "$RUN" $PKG > $OUT/demo_with.log 2>&1; R_WITH=$?
cd /; git -C /repo worktree remove --force $S
# our check
git -C /repo apply $OUT/patch.diff
( cd /verif && ./check $PROP --tier quick > $OUT/check_with.log 2>&1 ); R_CHECK=$?
git -C /repo checkout -- .
DET=$(grep -c '^VIOLATION' $OUT/check_with.log)
python3 - <<PY
import json
json.dump({"id":"$ID","property":"$PROP","needs_to_manifest":"""$NEEDS""","demo_file":"$DEMO","demo_dest":"$DEST","demo_cmd":"go test -vet=off -count=1 -run '$RUN' $PKG",
 "build_with_change_rc":$R_BUILD,"suite_with_change_rc":$R_SUITE,"demo_with_change_rc":$R_WITH,"demo_without_change_rc":$R_WITHOUT,
 "confirmed": ($R_BUILD==0 and $R_SUITE==0 and $R_WITH!=0 and $R_WITHOUT==0),
 "check_cmd":"./check $PROP --tier quick","check_rc":$R_CHECK,"check_violation_lines":$DET,"detected": $R_CHECK==1 and $DET>0}, open("$OUT/meta.json","w"), indent=1)
print(open("$OUT/meta.json").read())
PY
