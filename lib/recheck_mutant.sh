#!/bin/bash
# recheck_mutant.sh <seed-id> <property> <note>: re-runs the property's quick check against /repo with the kept patch applied
# (and undoes it), appends the outcome to seeded/<id>/meta.json under "history".
set -u
ID=$1; PROP=$2; NOTE=${3:-}
OUT=/verif/seeded/$ID
git -C /repo apply $OUT/patch.diff || { echo "patch does not apply"; exit 2; }
( cd /verif && ./check $PROP --tier quick > $OUT/check_with.log 2>&1 ); R=$?
git -C /repo checkout -- .
DET=$(grep -c '^VIOLATION' $OUT/check_with.log)
python3 - <<PY
import json
p="$OUT/meta.json"; m=json.load(open(p))
m.setdefault("history",[]).append({"check_rc": m.get("check_rc"), "check_violation_lines": m.get("check_violation_lines"), "detected": m.get("detected")})
m["check_rc"]=$R; m["check_violation_lines"]=$DET; m["detected"]=($R==1 and $DET>0); m["strengthened"]="""$NOTE"""
json.dump(m,open(p,"w"),indent=1); print(m["id"], "detected:", m["detected"])
PY
grep '^VIOLATION' $OUT/check_with.log | head -3
